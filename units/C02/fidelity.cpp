/* C02 native driver: a packet is sent through a real 3x1x1 DensitySubGrid whose middle cell is transparent to it
 * (zero density / zero neutral fraction); every crossed cell must be credited weight x cross section x chord, the
 * optical depth used must be the sum over cells, the packet must leave through the +x face. */
#include "DensitySubGrid.hpp"
#include "cm_replay.hpp"
#include <cmath>

static int traverse(int transparent_kind, bool verbose, const char *origin) {
  const double box[6] = {0., 0., 0., 3., 1., 1.};
  CoordinateVector< int_fast32_t > ncell(3, 1, 1);
  DensitySubGrid grid(box, ncell);
  for (int i = 0; i < 27; ++i) grid.set_neighbour(i, NEIGHBOUR_OUTSIDE);
  const double n[3] = {1.e8, transparent_kind == 1 ? 0. : 1.e8, 1.e8};
  const double xH[3] = {0.5, transparent_kind == 2 ? 0. : 0.5, 0.5};
  for (int c = 0; c < 3; ++c) {
    IonizationVariables &iv = grid._ionization_variables[c];
    iv.set_number_density(n[c]);
    for (int ion = 0; ion < NUMBER_OF_IONNAMES; ++ion) iv.set_ionic_fraction(ion, ion == ION_H_n ? xH[c] : 0.);
  }
  PhotonPacket photon;
  photon.set_position(CoordinateVector<>(0.25, 0.5, 0.5));
  photon.set_direction(CoordinateVector<>(1., 0., 0.));
  const double sigma = 6.3e-22, weight = 2.;
  for (int ion = 0; ion < NUMBER_OF_IONNAMES; ++ion) photon.set_photoionization_cross_section(ion, ion == ION_H_n ? sigma : 0.);
  photon.set_weight(weight);
  photon.set_energy(4.e15);
  photon.set_target_optical_depth(1.e30);
  const int_fast32_t out = grid.interact(photon, TRAVELDIRECTION_INSIDE);
  int bad = 0;
  const double chord[3] = {0.75, 1., 1.};
  if (out != TRAVELDIRECTION_FACE_X_P) { bad = 1; if (verbose) std::printf("REPRODUCED (%s): packet left through code %d instead of the +x face\n", origin, (int)out); }
  for (int c = 0; c < 3; ++c) {
    const double got = grid._ionization_variables[c].get_mean_intensity(ION_H_n);
    const double want = chord[c] * sigma * weight;
    if (!(std::abs(got - want) <= 1.e-12 * want)) {
      bad = 1;
      if (verbose) std::printf("REPRODUCED (%s): cell %d (density %g, neutral fraction %g) was credited mean intensity %g, expected weight x cross section x path = %g: a visited cell did not receive its path length\n", origin, c, n[c], xH[c], got, want);
    }
  }
  return bad;
}

static int scenarios(bool verbose, const char *origin) { return traverse(0, verbose, origin) | traverse(1, verbose, origin) | traverse(2, verbose, origin); }

int main(int argc, char **argv) {
  if (argc >= 4 && std::string(argv[1]) == "fidelity") { if (scenarios(true, "fidelity")) { std::fprintf(stderr, "FIDELITY MISMATCH: real interact violates the scenarios\n"); return 1; } std::printf("FIDELITY OK cases=3\n"); return 0; }
  if (argc >= 3 && std::string(argv[1]) == "replay") { int b = scenarios(true, "native boundary search"); if (!b) std::printf("NOT-REPRODUCED\n"); return b; }
  return 2;
}
