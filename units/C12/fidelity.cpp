/* C12 native driver: the real LiveOutputManager constructed (placement new)
 * over poisoned storage; compares which owned pointers are non-null with the
 * extracted C over the same poisoned globals (fidelity), and evaluates the
 * ownership postcondition for a CBMC counterexample (replay). */
#include "LiveOutputManager.hpp"
#include "Task.hpp"
#include "ThreadSafeVector.hpp"
#include <sys/wait.h>
#include <unistd.h>
#include "cm_replay.hpp"
#include <new>

extern "C" {
struct cm_cv_int_fast32_t { int_fast32_t c[3]; };
extern bool _enabled;
extern double _output_interval;
extern uint_fast32_t _next_output;
extern void *_surface_density_calculator, *_surface_density_ionized_calculator, *_density_PDF_calculator, *_velocity_PDF_calculator;
void LiveOutputManager_ctor(struct cm_cv_int_fast32_t, struct cm_cv_int_fast32_t, bool, bool, bool, bool, double, double, uint_fast32_t, bool,
                            double, uint_fast32_t, double);
}

struct Flags { bool enabled, sd, sdi, dpdf, vpdf; };

/* returns bit mask of non-null owned pointers of the real object; poisoned = member still has the poison pattern */
static unsigned real_ctor(const Flags &f, unsigned &poisoned) {
  alignas(LiveOutputManager) static unsigned char storage[sizeof(LiveOutputManager)];
  std::memset(storage, 0xAB, sizeof(storage));
  CoordinateVector< int_fast32_t > nsub(1, 1, 1), ncell(2, 2, 2);
  LiveOutputManager *m = new (storage) LiveOutputManager(nsub, ncell, f.enabled, f.sd, f.sdi, f.dpdf, 1.e-25, 1.e-19, 10, f.vpdf, 5.e4, 10, 1.);
  void *p[4] = {m->_surface_density_calculator, m->_surface_density_ionized_calculator, m->_density_PDF_calculator, m->_velocity_PDF_calculator};
  unsigned mask = 0;
  poisoned = 0;
  void *poison;
  std::memset(&poison, 0xAB, sizeof(poison));
  for (int i = 0; i < 4; ++i) {
    if (p[i] == poison) poisoned |= 1u << i;
    else if (p[i] != nullptr) mask |= 1u << i;
  }
  if (!poisoned) m->~LiveOutputManager();
  return mask;
}

static int fidelity(uint64_t, long) {
  long cases = 0;
  for (unsigned k = 0; k < 32; ++k) {
    Flags f = {(k & 1) != 0, (k & 2) != 0, (k & 4) != 0, (k & 8) != 0, (k & 16) != 0};
    unsigned poisoned = 0;
    unsigned rm = real_ctor(f, poisoned);
    std::memset(&_surface_density_calculator, 0xAB, 8); std::memset(&_surface_density_ionized_calculator, 0xAB, 8);
    std::memset(&_density_PDF_calculator, 0xAB, 8); std::memset(&_velocity_PDF_calculator, 0xAB, 8);
    struct cm_cv_int_fast32_t a = {{1, 1, 1}}, b = {{2, 2, 2}};
    LiveOutputManager_ctor(a, b, f.enabled, f.sd, f.sdi, f.dpdf, 1.e-25, 1.e-19, 10, f.vpdf, 5.e4, 10, 1.);
    void *q[4] = {_surface_density_calculator, _surface_density_ionized_calculator, _density_PDF_calculator, _velocity_PDF_calculator};
    void *poison; std::memset(&poison, 0xAB, sizeof(poison));
    unsigned em = 0, ep = 0;
    for (int i = 0; i < 4; ++i) { if (q[i] == poison) ep |= 1u << i; else if (q[i]) em |= 1u << i; }
    CM_FID_CHECK(rm == em && poisoned == ep, "flags %u: real non-null mask %u poisoned %u, extracted %u %u", k, rm, poisoned, em, ep);
    ++cases;
  }
  std::printf("FIDELITY OK cases=%ld\n", cases);
  return 0;
}

/* leak detection is not what this driver is for (the extracted constructor's stand-in allocations are never freed) */
extern "C" const char *__asan_default_options() { return "detect_leaks=0"; }

/* slot pool: the running index only ever grows; after slots have been freed and reused it exceeds the pool size.
 * clear_after must still stay inside the pool arrays (this driver is built with AddressSanitizer; the scenario runs
 * in a child process so that a detected overflow is an observation, not a crash of the driver). */
static int pool_scenario(bool verbose) {
  pid_t pid = fork();
  if (pid == 0) {
    ThreadSafeVector< Task > pool(8, "pool");
    size_t keep[3];
    for (int i = 0; i < 3; ++i) keep[i] = pool.get_free_element();
    for (int r = 0; r < 40; ++r) { const size_t a = pool.get_free_element(); const size_t b = pool.get_free_element(); pool.free_element(a); pool.free_element(b); }
    pool.clear_after(3);
    /* every slot from 3 on must be free again: taking 5 slots must work */
    for (int i = 0; i < 5; ++i) (void)pool.get_free_element();
    (void)keep;
    _exit(0);
  }
  int st = 0;
  waitpid(pid, &st, 0);
  if (!(WIFEXITED(st) && WEXITSTATUS(st) == 0)) {
    if (verbose) std::printf("REPRODUCED: ThreadSafeVector<Task>(8): after 83 slot grants (running index > pool size) clear_after(3) accessed memory outside the pool arrays (AddressSanitizer / abnormal exit of the scenario process)\n");
    return 1;
  }
  return 0;
}

static int replay(const char *path) {
  CMInputs in;
  if (!in.load(path)) return 2;
  if (in.job.find("element") != std::string::npos || in.job.find("clear_after") != std::string::npos) {
    int b = pool_scenario(true);
    if (!b) std::printf("NOT-REPRODUCED\n");
    return b;
  }
  if (in.job == "add_trackers_body" || !in.has("in_enabled")) {
    std::printf("NOT-REPRODUCED: no native oracle for job %s (a native run needs a full DensitySubGridCreator grid with copies)\n", in.job.c_str());
    return 0;
  }
  Flags f = {in.u64("in_enabled") != 0, in.u64("in_sd") != 0, in.u64("in_sdi") != 0, in.u64("in_dpdf") != 0, in.u64("in_vpdf") != 0};
  unsigned poisoned = 0;
  unsigned mask = real_ctor(f, poisoned);
  std::printf("real LiveOutputManager(enabled=%d, sd=%d, sdi=%d, dpdf=%d, vpdf=%d) over poisoned storage: non-null mask %u, members left uninitialised mask %u\n",
              f.enabled, f.sd, f.sdi, f.dpdf, f.vpdf, mask, poisoned);
  int bad = 0;
  static const char *names[4] = {"_surface_density_calculator", "_surface_density_ionized_calculator", "_density_PDF_calculator", "_velocity_PDF_calculator"};
  for (int i = 0; i < 4; ++i)
    if (poisoned & (1u << i)) { std::printf("REPRODUCED: %s is left uninitialised by the constructor and is deleted by the destructor if non-null (invalid free)\n", names[i]); bad = 1; }
  const bool want[4] = {f.enabled && f.sd, f.enabled && f.sdi, f.enabled && f.dpdf, f.enabled && f.vpdf};
  for (int i = 0; i < 4 && !poisoned; ++i)
    if (((mask >> i) & 1u) != (unsigned)want[i]) { std::printf("REPRODUCED: %s allocated=%u but requested=%d\n", names[i], (mask >> i) & 1u, (int)want[i]); bad = 1; }
  if (!bad) std::printf("NOT-REPRODUCED\n");
  return bad;
}

int main(int argc, char **argv) {
  if (argc >= 4 && std::string(argv[1]) == "fidelity") return fidelity(std::strtoull(argv[2], 0, 10), std::atol(argv[3]));
  if (argc >= 3 && std::string(argv[1]) == "replay") return replay(argv[2]);
  return 2;
}
