/* C13 native driver: real RandomGenerator vs extracted C (bitwise), and replay
 * of set_seed counterexamples against the real class. */
#include "RandomGenerator.hpp"
#include "RestartReader.hpp"
#include "RestartWriter.hpp"
#include "cm_replay.hpp"
#include <unistd.h>
#include <cmath>

extern "C" {
extern double _xdbl[12];
extern double _carry;
extern uint_fast32_t _ir, _jr, _ir_old, _pr;
void RandomGenerator_set_seed(int_fast32_t);
double RandomGenerator_get_uniform_random_double(void);
int_fast32_t RandomGenerator_get_random_integer(void);
}

static bool same_state(const RandomGenerator &r) {
  for (int i = 0; i < 12; ++i) if (cm_bits(r._xdbl[i]) != cm_bits(_xdbl[i])) return false;
  return cm_bits(r._carry) == cm_bits(_carry) && r._ir == _ir && r._jr == _jr && r._ir_old == _ir_old && r._pr == _pr;
}

static int fidelity(uint64_t seed, long n) {
  CMRng rng(seed);
  long cases = 0;
  const int_fast32_t fixed[] = {0, 1, 2, 42, 512, 0x7fffffff, (int_fast32_t)0x80000000ll, -1, (int_fast32_t)0x100000000ll};
  for (int s = 0; cases < n; ++s) {
    int_fast32_t sd = s < 9 ? fixed[s] : (int_fast32_t)(rng.next() >> (rng.below(40)));
    RandomGenerator real(sd);
    RandomGenerator_set_seed(sd);
    CM_FID_CHECK(same_state(real), "state after set_seed(%ld)", (long)sd);
    for (int d = 0; d < 1300; ++d) {
      if (d % 7 == 3) {
        int_fast32_t a = real.get_random_integer(), b = RandomGenerator_get_random_integer();
        CM_FID_CHECK(a == b, "integer draw %d seed %ld", d, (long)sd);
      } else {
        double a = real.get_uniform_random_double(), b = RandomGenerator_get_uniform_random_double();
        CM_FID_CHECK(cm_bits(a) == cm_bits(b) && a >= 0. && a < 1., "draw %d seed %ld: %a vs %a", d, (long)sd, a, b);
      }
      ++cases;
    }
    CM_FID_CHECK(same_state(real), "state after draws, seed %ld", (long)sd);
  }
  std::printf("FIDELITY OK cases=%ld\n", cases);
  return 0;
}

static uint64_t spec_first31(int_fast32_t seed) {
  if (seed == 0) seed = 1;
  uint64_t s = (uint64_t)seed & 0x7FFFFFFFull, w = 0;
  for (int t = 0; t < 31; ++t) w = (w << 1) | (1 - ((s >> t) & 1));
  return w;
}

static int check_seed(int_fast32_t sd, const char *origin) {
  RandomGenerator r(sd);
  int bad = 0;
  for (int i = 0; i < 12; ++i) {
    const double v = r._xdbl[i] * 281474976710656.0;
    if (!(r._xdbl[i] >= 0. && r._xdbl[i] < 1. && v == std::floor(v))) { std::printf("REPRODUCED (%s seed %ld): state word %d is not a multiple of 2^-48 in [0,1)\n", origin, (long)sd, i); bad = 1; }
  }
  if (!(r._ir == 11 && r._jr == 7 && r._ir_old == 0 && r._pr == 397 && r._carry == 0.)) { std::printf("REPRODUCED (%s seed %ld): indices/luxury level after seeding\n", origin, (long)sd); bad = 1; }
  const uint64_t top = ((uint64_t)(r._xdbl[0] * 281474976710656.0)) >> 17;
  if (top != spec_first31(sd)) {
    std::printf("REPRODUCED (%s seed %ld): top 31 bits of state word 0 are %llx, the seeding spec (complemented seed bits, 0 -> 1) gives %llx\n", origin, (long)sd,
                (unsigned long long)top, (unsigned long long)spec_first31(sd));
    bad = 1;
  }
  return bad;
}

static int replay(const char *path) {
  CMInputs in;
  if (!in.load(path)) return 2;
  if (in.job == "set_seed") {
    int bad = 0;
    if (in.has("in_seed")) bad |= check_seed(in.i64("in_seed"), "verifier counterexample");
    if (!bad) {
      /* the failed obligation is a loop-invariant step from a havoced state: its input need not fail from
       * the initial state. Boundary seeds are tried natively. */
      const int_fast32_t cand[] = {0, 1, 2, 3, 0x7fffffff, (int_fast32_t)0x80000000ll, (int_fast32_t)0x80000001ll, -1, 42};
      for (int_fast32_t c : cand) bad |= check_seed(c, "native boundary search");
    }
    if (!bad) {
      /* the contract is stated for an ARBITRARY generator state before seeding: re-seeding a used generator must
       * give the state of a fresh generator with that seed */
      for (int draws = 1; draws <= 40 && !bad; ++draws) {
        RandomGenerator used(42);
        for (int d = 0; d < draws; ++d) used.get_uniform_random_double();
        used.set_seed(512);
        RandomGenerator fresh(512);
        bool same = cm_bits(used._carry) == cm_bits(fresh._carry) && used._ir == fresh._ir && used._jr == fresh._jr && used._ir_old == fresh._ir_old && used._pr == fresh._pr;
        for (int i = 0; i < 12; ++i) same = same && cm_bits(used._xdbl[i]) == cm_bits(fresh._xdbl[i]);
        if (!same) { std::printf("REPRODUCED (native boundary search): generator(42) after %d draws re-seeded with 512 differs from a fresh generator(512) (carry %a vs %a, luxury %lu vs %lu)\n", draws, used._carry, fresh._carry, (unsigned long)used._pr, (unsigned long)fresh._pr); bad = 1; }
      }
    }
    if (!bad) std::printf("NOT-REPRODUCED\n");
    return bad;
  }
  if (in.job == "restart_roundtrip") {
    int bad = 0;
    char name[64];
    std::snprintf(name, sizeof name, "/var/tmp/cm_c13_restart_%d.dump", (int)getpid());
    /* the verifier's state: indices and carry from the counterexample, lattice words of a seeded generator */
    for (int pass = 0; pass < 2 && !bad; ++pass) {
      for (int n = 0; n <= (pass ? 320 : 0) && !bad; ++n) {
        RandomGenerator a(42);
        if (pass == 0) {
          if (!in.has("in_ir") || !in.has("in_ir_old")) break;
          a._ir = in.u64("in_ir");
          a._ir_old = in.u64("in_ir_old");
          a._jr = (a._ir_old + 7) % 12;
          a._carry = (in.has("in_carry_set") && in.u64("in_carry_set")) ? 1.0 / 281474976710656.0 : 0.;
        } else {
          for (int d = 0; d < n; ++d) a.get_uniform_random_double();
        }
        { RestartWriter w(name); a.write_restart_file(w); }
        RestartReader r(name);
        RandomGenerator b(r);
        bool same = cm_bits(a._carry) == cm_bits(b._carry) && a._ir == b._ir && a._jr == b._jr && a._ir_old == b._ir_old && a._pr == b._pr;
        for (int i = 0; i < 12; ++i) same = same && cm_bits(a._xdbl[i]) == cm_bits(b._xdbl[i]);
        bool samedraws = true;
        for (int d = 0; d < 40; ++d) samedraws = samedraws && cm_bits(a.get_uniform_random_double()) == cm_bits(b.get_uniform_random_double());
        if (!same || !samedraws) {
          if (pass == 0)
            std::printf("REPRODUCED (verifier counterexample): generator with read index %lu, block start %lu saved and restored: state %s, next 40 draws %s\n", (unsigned long)in.u64("in_ir"),
                        (unsigned long)in.u64("in_ir_old"), same ? "equal" : "differs", samedraws ? "equal" : "differ");
          else
            std::printf("REPRODUCED (native boundary search): generator(42) saved after %d draws and restored: state %s, next 40 draws %s\n", n, same ? "equal" : "differs", samedraws ? "equal" : "differ");
          bad = 1;
        }
      }
    }
    std::remove(name);
    if (!bad) std::printf("NOT-REPRODUCED\n");
    return bad;
  }
  std::printf("NOT-REPRODUCED: no native oracle for job %s (state is havoced as a whole)\n", in.job.c_str());
  return 0;
}

int main(int argc, char **argv) {
  if (argc >= 4 && std::string(argv[1]) == "fidelity") return fidelity(std::strtoull(argv[2], 0, 10), std::atol(argv[3]));
  if (argc >= 3 && std::string(argv[1]) == "replay") return replay(argv[2]);
  return 2;
}
