/* C03 native driver: the real TravelDirections functions against the sign-triple spec, exhaustively over the
 * 27 codes, the 64 masks and all sign classes of a direction vector ({-inf,-1,-0,+0,1,inf,NaN}^3). */
#include "DensitySubGridCreator.hpp"
#include "HomogeneousDensityFunction.hpp"
#include "TravelDirections.hpp"
#include <vector>
#include "cm_replay.hpp"
#include <cmath>
#include <limits>

static const int S[27][3] = {
  /* INSIDE */ {0, 0, 0},
  /* CORNER_PPP */ {1, 1, 1},
  /* CORNER_PPN */ {1, 1, -1},
  /* CORNER_PNP */ {1, -1, 1},
  /* CORNER_PNN */ {1, -1, -1},
  /* CORNER_NPP */ {-1, 1, 1},
  /* CORNER_NPN */ {-1, 1, -1},
  /* CORNER_NNP */ {-1, -1, 1},
  /* CORNER_NNN */ {-1, -1, -1},
  /* EDGE_X_PP */ {0, 1, 1},
  /* EDGE_X_PN */ {0, 1, -1},
  /* EDGE_X_NP */ {0, -1, 1},
  /* EDGE_X_NN */ {0, -1, -1},
  /* EDGE_Y_PP */ {1, 0, 1},
  /* EDGE_Y_PN */ {1, 0, -1},
  /* EDGE_Y_NP */ {-1, 0, 1},
  /* EDGE_Y_NN */ {-1, 0, -1},
  /* EDGE_Z_PP */ {1, 1, 0},
  /* EDGE_Z_PN */ {1, -1, 0},
  /* EDGE_Z_NP */ {-1, 1, 0},
  /* EDGE_Z_NN */ {-1, -1, 0},
  /* FACE_X_P */ {1, 0, 0},
  /* FACE_X_N */ {-1, 0, 0},
  /* FACE_Y_P */ {0, 1, 0},
  /* FACE_Y_N */ {0, -1, 0},
  /* FACE_Z_P */ {0, 0, 1},
  /* FACE_Z_N */ {0, 0, -1}
};

static int check_all(bool verbose) {
  static_assert(TRAVELDIRECTION_INSIDE == 0, "enumerator order");
  static_assert(TRAVELDIRECTION_CORNER_PPP == 1, "enumerator order");
  static_assert(TRAVELDIRECTION_CORNER_PPN == 2, "enumerator order");
  static_assert(TRAVELDIRECTION_CORNER_PNP == 3, "enumerator order");
  static_assert(TRAVELDIRECTION_CORNER_PNN == 4, "enumerator order");
  static_assert(TRAVELDIRECTION_CORNER_NPP == 5, "enumerator order");
  static_assert(TRAVELDIRECTION_CORNER_NPN == 6, "enumerator order");
  static_assert(TRAVELDIRECTION_CORNER_NNP == 7, "enumerator order");
  static_assert(TRAVELDIRECTION_CORNER_NNN == 8, "enumerator order");
  static_assert(TRAVELDIRECTION_EDGE_X_PP == 9, "enumerator order");
  static_assert(TRAVELDIRECTION_EDGE_X_PN == 10, "enumerator order");
  static_assert(TRAVELDIRECTION_EDGE_X_NP == 11, "enumerator order");
  static_assert(TRAVELDIRECTION_EDGE_X_NN == 12, "enumerator order");
  static_assert(TRAVELDIRECTION_EDGE_Y_PP == 13, "enumerator order");
  static_assert(TRAVELDIRECTION_EDGE_Y_PN == 14, "enumerator order");
  static_assert(TRAVELDIRECTION_EDGE_Y_NP == 15, "enumerator order");
  static_assert(TRAVELDIRECTION_EDGE_Y_NN == 16, "enumerator order");
  static_assert(TRAVELDIRECTION_EDGE_Z_PP == 17, "enumerator order");
  static_assert(TRAVELDIRECTION_EDGE_Z_PN == 18, "enumerator order");
  static_assert(TRAVELDIRECTION_EDGE_Z_NP == 19, "enumerator order");
  static_assert(TRAVELDIRECTION_EDGE_Z_NN == 20, "enumerator order");
  static_assert(TRAVELDIRECTION_FACE_X_P == 21, "enumerator order");
  static_assert(TRAVELDIRECTION_FACE_X_N == 22, "enumerator order");
  static_assert(TRAVELDIRECTION_FACE_Y_P == 23, "enumerator order");
  static_assert(TRAVELDIRECTION_FACE_Y_N == 24, "enumerator order");
  static_assert(TRAVELDIRECTION_FACE_Z_P == 25, "enumerator order");
  static_assert(TRAVELDIRECTION_FACE_Z_N == 26, "enumerator order");
  int bad = 0;
  for (int d = 0; d < 27; ++d) {
    const int o = TravelDirections::output_to_input_direction(d);
    if (o < 0 || o >= 27 || S[o][0] != -S[d][0] || S[o][1] != -S[d][1] || S[o][2] != -S[d][2] || TravelDirections::output_to_input_direction(o) != d) {
      bad = 1; if (verbose) std::printf("REPRODUCED: output_to_input_direction(%d) = %d is not the geometrically opposite code / not an involution\n", d, o);
    }
  }
  const double vals[7] = {-std::numeric_limits< double >::infinity(), -1., -0., 0., 1., std::numeric_limits< double >::infinity(), std::numeric_limits< double >::quiet_NaN()};
  for (int d = 0; d < 27; ++d)
    for (int a = 0; a < 7; ++a) for (int b = 0; b < 7; ++b) for (int c = 0; c < 7; ++c) {
      const double v[3] = {vals[a], vals[b], vals[c]};
      bool spec = true, spec_in = true;
      const int o = TravelDirections::output_to_input_direction(d);
      for (int k = 0; k < 3; ++k) { if (S[d][k] > 0) spec = spec && v[k] > 0.; if (S[d][k] < 0) spec = spec && v[k] < 0.; if (o >= 0 && o < 27) { if (S[o][k] > 0) spec_in = spec_in && v[k] > 0.; if (S[o][k] < 0) spec_in = spec_in && v[k] < 0.; } }
      CoordinateVector<> dir(v[0], v[1], v[2]);
      if (TravelDirections::is_compatible_output_direction(dir, d) != spec) { bad = 1; if (verbose) std::printf("REPRODUCED: is_compatible_output_direction((%g,%g,%g), %d) differs from the sign-triple spec\n", v[0], v[1], v[2], d); verbose = false; }
      if (TravelDirections::is_compatible_input_direction(dir, d) != spec_in) { bad = 1; if (verbose) std::printf("REPRODUCED: is_compatible_input_direction((%g,%g,%g), %d) differs from compatibility with the opposite code\n", v[0], v[1], v[2], d); verbose = false; }
    }
  for (int m = 0; m < 64; ++m) {
    const int t[3] = {((m >> 5) & 1) - ((m >> 4) & 1), ((m >> 3) & 1) - ((m >> 2) & 1), ((m >> 1) & 1) - (m & 1)};
    const bool valid = !(((m >> 5) & 1) && ((m >> 4) & 1)) && !(((m >> 3) & 1) && ((m >> 2) & 1)) && !(((m >> 1) & 1) && (m & 1));
    const int r = TravelDirections::get_output_direction(m);
    const bool ok = valid ? (r >= 0 && r < 27 && S[r][0] == t[0] && S[r][1] == t[1] && S[r][2] == t[2]) : (r == -1);
    if (!ok) { bad = 1; std::printf("REPRODUCED: get_output_direction(mask %d) = %d\n", m, r); }
  }
  return bad;
}

/* copies: create copies, change the copy levels (update_copies re-runs create_copies), then every subgrid with
 * copies must point at its own first copy and every copy must be registered under its original */
static int check_copies(bool verbose) {
  DensitySubGridCreator< DensitySubGrid > creator(Box<>(CoordinateVector<>(0.), CoordinateVector<>(1.)), CoordinateVector< int_fast32_t >(8, 8, 8),
                                                  CoordinateVector< int_fast32_t >(4, 2, 2), CoordinateVector< bool >(false, false, false));
  HomogeneousDensityFunction density_function;
  creator.initialize(density_function);
  const size_t norig = creator.number_of_original_subgrids();
  std::vector< uint_fast8_t > l1(norig, 0), l2(norig, 0);
  l1[9] = 1;
  l2[2] = 2; l2[9] = 1; l2[10] = 1;
  creator.create_copies(l1);
  creator.update_copies(l2);
  int bad = 0;
  for (size_t i = 0; i < norig; ++i) {
    if (l2[i] == 0) continue;
    const size_t first = creator._copies[i];
    if (first < norig || first >= creator._subgrids.size() || creator._originals[first - norig] != i) {
      bad = 1;
      if (verbose) std::printf("REPRODUCED: after create_copies + update_copies the first-copy offset of subgrid %zu is %zu, which is %s\n", i, first,
                               (first >= norig && first < creator._subgrids.size()) ? "a copy of another subgrid" : "not a copy at all");
    }
  }
  return bad;
}

/* wiring: for small layouts with every periodicity combination (including one subgrid on a periodic axis) every
 * neighbour entry must be the subgrid at the offset position, wrapped per periodic axis, or NEIGHBOUR_OUTSIDE */
static int check_wiring(bool verbose) {
  int bad = 0;
  const int layouts[4][3] = {{1, 1, 1}, {1, 2, 2}, {2, 1, 1}, {2, 2, 1}};
  for (int l = 0; l < 4; ++l)
    for (int per = 0; per < 8; ++per) {
      const int n[3] = {layouts[l][0], layouts[l][1], layouts[l][2]};
      const bool p[3] = {(per & 1) != 0, (per & 2) != 0, (per & 4) != 0};
      DensitySubGridCreator< DensitySubGrid > creator(Box<>(CoordinateVector<>(0.), CoordinateVector<>(1.)), CoordinateVector< int_fast32_t >(4 * n[0], 4 * n[1], 4 * n[2]),
                                                      CoordinateVector< int_fast32_t >(n[0], n[1], n[2]), CoordinateVector< bool >(p[0], p[1], p[2]));
      HomogeneousDensityFunction density_function;
      creator.initialize(density_function);
      for (int ix = 0; ix < n[0]; ++ix) for (int iy = 0; iy < n[1]; ++iy) for (int iz = 0; iz < n[2]; ++iz) {
        const size_t index = (ix * n[1] + iy) * n[2] + iz;
        for (int d = 0; d < 27; ++d) {
          int c[3] = {ix + S[d][0], iy + S[d][1], iz + S[d][2]};
          bool inside = true;
          for (int a = 0; a < 3; ++a) { if (p[a]) c[a] = (c[a] + n[a]) % n[a]; inside = inside && c[a] >= 0 && c[a] < n[a]; }
          const uint_fast32_t want = inside ? (uint_fast32_t)((c[0] * n[1] + c[1]) * n[2] + c[2]) : NEIGHBOUR_OUTSIDE;
          const uint_fast32_t got = (*creator.get_subgrid(index)).get_neighbour(d);
          if (got != want && !bad) {
            bad = 1;
            if (verbose) std::printf("REPRODUCED: layout %dx%dx%d periodic (%d,%d,%d): neighbour of subgrid %zu through code %d is %lu, the subgrid at the (wrapped) offset position is %lu\n", n[0], n[1], n[2], (int)p[0], (int)p[1], (int)p[2], index, d, (unsigned long)got, (unsigned long)want);
          }
        }
      }
    }
  return bad;
}

int main(int argc, char **argv) {
  if (argc >= 4 && std::string(argv[1]) == "fidelity") { if (check_all(true) | check_copies(true) | check_wiring(true)) { std::fprintf(stderr, "FIDELITY MISMATCH\n"); return 1; } std::printf("FIDELITY OK cases=%d\n", 27 + 27 * 343 + 64); return 0; }
  if (argc >= 3 && std::string(argv[1]) == "replay") { int b = check_all(true) | check_copies(true) | check_wiring(true); if (!b) std::printf("NOT-REPRODUCED\n"); return b; }
  return 2;
}
