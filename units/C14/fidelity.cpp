/* C14 native driver.
 * fidelity: random dump histories on the REAL RestartManager in a scratch
 *   directory vs the extracted C on the ghost file system: same files exist,
 *   same contents, same counters after every dump.
 * replay: a CBMC counterexample state (max backups, backups present, dumps
 *   taken) is materialised on disk, the real get_restart_writer() is called in
 *   a child process, and the contract's postcondition is evaluated on the
 *   resulting directory. An abort of the child ("taking a new dump failed") is
 *   a reproduction. */
#include "RestartManager.hpp"
#include "cm_replay.hpp"
#include <sys/stat.h>
#include <sys/wait.h>
#include <unistd.h>

extern "C" {
extern uint_fast32_t _maximum_number_of_backups, _number_of_backups, _number_of_restarts;
extern bool fs_exists[65], fs_complete[65];
extern uint64_t fs_dump[65];
void *RestartManager_get_restart_writer(void *);
}

static std::string main_name(const std::string &d) { return d + "/restart.dump"; }
static std::string back_name(const std::string &d, unsigned i) { return d + "/restart." + std::to_string(i) + ".back"; }
static bool exists(const std::string &f) { struct stat st; return stat(f.c_str(), &st) == 0; }
static void put(const std::string &f, uint64_t id) { std::ofstream o(f); o.write((const char *)&id, 8); }
static bool get(const std::string &f, uint64_t &id) { std::ifstream i(f); i.read((char *)&id, 8); return (bool)i; }
static std::string scratch() {
  char t[] = "/var/tmp/verif_c14_XXXXXX";
  if (!mkdtemp(t)) { perror("mkdtemp"); std::exit(2); }
  return t;
}
static void wipe(const std::string &d) { std::string c = "rm -rf '" + d + "'"; if (system(c.c_str())) {} }

/* real dump: get the writer, write the dump id, close */
static void real_dump(RestartManager &rm, uint64_t id) {
  RestartWriter *w = rm.get_restart_writer();
  w->write(id);
  delete w;
}

static int fidelity(uint64_t seed, long n) {
  CMRng rng(seed);
  long cases = 0;
  while (cases < n / 20 + 50) {
    const unsigned max = rng.below(7);
    const unsigned dumps = 1 + rng.below(14);
    /* in-process history; before each dump a child process probes on a copy of the
     * directory whether the real call aborts (cmac_error) */
    std::string dir = scratch();
    {
      RestartManager rm(dir, 3600., max, 1.e9, "");
      _maximum_number_of_backups = max; _number_of_backups = 0; _number_of_restarts = 0;
      for (int k = 0; k < 65; ++k) fs_exists[k] = false;
      for (unsigned d = 1; d <= dumps; ++d) {
        /* probe in a child on a copy of the directory whether the real call aborts */
        std::string probe = scratch();
        std::string cp = "cp -r '" + dir + "/.' '" + probe + "/'"; if (system(cp.c_str())) {}
        pid_t pid = fork();
        if (pid == 0) {
          RestartManager prm(probe, 3600., max, 1.e9, "");
          prm._number_of_backups = rm._number_of_backups; prm._number_of_restarts = rm._number_of_restarts;
          real_dump(prm, d); _exit(0);
        }
        int st = 0; waitpid(pid, &st, 0); wipe(probe);
        CM_FID_CHECK(WIFEXITED(st) && WEXITSTATUS(st) == 0, "real get_restart_writer aborted: max=%u dump #%u", max, d);
        real_dump(rm, d);
        RestartManager_get_restart_writer(nullptr);
        fs_complete[0] = true;
        CM_FID_CHECK(rm._number_of_backups == _number_of_backups && rm._number_of_restarts == _number_of_restarts, "counters differ after dump %u (max %u)", d, max);
        for (unsigned f = 0; f < 65; ++f) {
          const std::string name = f == 0 ? main_name(dir) : back_name(dir, f - 1);
          uint64_t id = 0;
          const bool ex = exists(name);
          CM_FID_CHECK(ex == fs_exists[f], "file %s: real exists=%d ghost exists=%d after dump %u (max %u)", name.c_str(), (int)ex, (int)fs_exists[f], d, max);
          if (ex) { CM_FID_CHECK(get(name, id) && id == (f == 0 ? d : fs_dump[f] + 0) && (f != 0 || fs_dump[0] == _number_of_restarts), "file %s content differs after dump %u", name.c_str(), d); }
        }
        ++cases;
      }
    }
    wipe(dir);
  }
  std::printf("FIDELITY OK cases=%ld\n", cases);
  return 0;
}

static int replay(const char *path) {
  CMInputs in;
  if (!in.load(path)) return 2;
  if (in.job != "get_restart_writer") { std::printf("NOT-REPRODUCED: no native oracle for job %s\n", in.job.c_str()); return 0; }
  const uint64_t max = in.u64("in_max"), nb = in.u64("in_nb"), n = in.u64("in_n");
  const uint64_t exp_nb = n == 0 ? 0 : std::min(max, n - 1);
  if (max > 64 || nb != exp_nb) { std::printf("NOT-REPRODUCED: counterexample state is not a reachable manager state\n"); return 0; }
  std::string dir = scratch();
  if (n > 0) put(main_name(dir), n);
  for (uint64_t j = 0; j < nb; ++j) put(back_name(dir, j), n - 1 - j);
  std::printf("real RestartManager in %s: max backups=%llu, backups present=%llu, dumps taken=%llu\n", dir.c_str(),
              (unsigned long long)max, (unsigned long long)nb, (unsigned long long)n);
  pid_t pid = fork();
  if (pid == 0) {
    RestartManager rm(dir, 3600., max, 1.e9, "");
    rm._number_of_backups = nb; rm._number_of_restarts = n;
    real_dump(rm, n + 1);
    _exit((rm._number_of_restarts == n + 1 && rm._number_of_backups == std::min(max, n)) ? 0 : 7);
  }
  int st = 0; waitpid(pid, &st, 0);
  int bad = 0;
  if (!WIFEXITED(st)) { std::printf("REPRODUCED: taking a new dump failed: real get_restart_writer() aborted (signal %d)\n", WTERMSIG(st)); bad = 1; }
  else if (WEXITSTATUS(st) == 7) { std::printf("REPRODUCED: counters after the dump are not (n+1, min(max, n))\n"); bad = 1; }
  else {
    uint64_t id = 0;
    if (!(get(main_name(dir), id) && id == n + 1)) { std::printf("REPRODUCED: main dump file does not hold the newest state\n"); bad = 1; }
    const uint64_t nnb = std::min(max, n);
    for (uint64_t j = 0; j < 65; ++j) {
      const bool ex = exists(back_name(dir, j));
      if (j < nnb) {
        if (!(ex && get(back_name(dir, j), id) && id == n - j)) { std::printf("REPRODUCED: backup %llu does not hold the %llu-th previous dump (newest-first order broken or dump lost)\n", (unsigned long long)j, (unsigned long long)(j + 1)); bad = 1; }
      } else if (ex) { std::printf("REPRODUCED: backup %llu exists beyond the configured number\n", (unsigned long long)j); bad = 1; }
    }
  }
  wipe(dir);
  if (!bad) std::printf("NOT-REPRODUCED: real call satisfied the postcondition from this state\n");
  return bad;
}

int main(int argc, char **argv) {
  if (argc >= 4 && std::string(argv[1]) == "fidelity") return fidelity(std::strtoull(argv[2], 0, 10), std::atol(argv[3]));
  if (argc >= 3 && std::string(argv[1]) == "replay") return replay(argv[2]);
  return 2;
}
