/* C05 native driver: the real HLLCRiemannSolver against an independently written textbook HLLC flux
 * (Toro 2009, eqs. 10.38/10.39, with the wave-speed estimates the code documents), and the mirror-state
 * (reflecting wall) clause. Used as a differential check on every run and to replay counterexamples. */
#include "ExactRiemannSolver.hpp"
#include "HLLCRiemannSolver.hpp"
#include "cm_replay.hpp"
#include <algorithm>
#include <cmath>

static void textbook_hllc(double g, double rhoL, double vL, double PL, double rhoR, double vR, double PR, double F[3]) {
  const double aL = std::sqrt(g * PL / rhoL), aR = std::sqrt(g * PR / rhoR);
  const double pPVRS = 0.5 * ((PL + PR) - 0.25 * (vR - vL) * (rhoL + rhoR) * (aL + aR));
  const double ps = std::max(0., pPVRS);
  const double qL = ps > PL ? std::sqrt(1. + (g + 1.) / (2. * g) * (ps / PL - 1.)) : 1.;
  const double qR = ps > PR ? std::sqrt(1. + (g + 1.) / (2. * g) * (ps / PR - 1.)) : 1.;
  const double SL = vL - aL * qL, SR = vR + aR * qR;
  const double Ss = (PR - PL + rhoL * vL * (SL - vL) - rhoR * vR * (SR - vR)) / (rhoL * (SL - vL) - rhoR * (SR - vR));
  const double EL = PL / (g - 1.) + 0.5 * rhoL * vL * vL, ER = PR / (g - 1.) + 0.5 * rhoR * vR * vR;
  const double FL[3] = {rhoL * vL, rhoL * vL * vL + PL, vL * (EL + PL)}, FR[3] = {rhoR * vR, rhoR * vR * vR + PR, vR * (ER + PR)};
  if (Ss >= 0.) {
    if (SL >= 0.) { for (int k = 0; k < 3; ++k) F[k] = FL[k]; return; }
    const double f = rhoL * (SL - vL) / (SL - Ss);
    const double Us[3] = {f, f * Ss, f * (EL / rhoL + (Ss - vL) * (Ss + PL / (rhoL * (SL - vL))))}, U[3] = {rhoL, rhoL * vL, EL};
    for (int k = 0; k < 3; ++k) F[k] = FL[k] + SL * (Us[k] - U[k]);
  } else {
    if (SR <= 0.) { for (int k = 0; k < 3; ++k) F[k] = FR[k]; return; }
    const double f = rhoR * (SR - vR) / (SR - Ss);
    const double Us[3] = {f, f * Ss, f * (ER / rhoR + (Ss - vR) * (Ss + PR / (rhoR * (SR - vR))))}, U[3] = {rhoR, rhoR * vR, ER};
    for (int k = 0; k < 3; ++k) F[k] = FR[k] + SR * (Us[k] - U[k]);
  }
}

/* 0: agree; 1: differ (prints) */
static int compare(double g, double rhoL, double vL, double PL, double rhoR, double vR, double PR, const char *origin, bool print) {
  const double aL = std::sqrt(g * PL / rhoL), aR = std::sqrt(g * PR / rhoR);
  if (2. / (g - 1.) * (aL + aR) <= vR - vL) return 0; /* vacuum generation: another branch of the solver */
  HLLCRiemannSolver s(g);
  double m = 0., E = 0., F[3];
  CoordinateVector<> p, n(1., 0., 0.);
  s.solve_for_flux(rhoL, CoordinateVector<>(vL, 0., 0.), PL, rhoR, CoordinateVector<>(vR, 0., 0.), PR, m, p, E, n);
  textbook_hllc(g, rhoL, vL, PL, rhoR, vR, PR, F);
  const double vmax = std::max(std::abs(vL), std::abs(vR)) + aL + aR;
  const double scale_m = (rhoL + rhoR) * vmax, scale_p = scale_m * vmax + PL + PR, scale_E = scale_p * vmax;
  const bool ok = std::abs(m - F[0]) <= 1.e-9 * scale_m && std::abs(p.x() - F[1]) <= 1.e-9 * scale_p && std::abs(E - F[2]) <= 1.e-9 * scale_E;
  if (!ok && print)
    std::printf("REPRODUCED (%s): real HLLCRiemannSolver(gamma=%g) for L=(%g, %g, %g) R=(%g, %g, %g): flux (mass, normal momentum, energy) = (%.12g, %.12g, %.12g), "
                "the textbook HLLC flux (Rankine-Hugoniot star state) is (%.12g, %.12g, %.12g)\n",
                origin, g, rhoL, vL, PL, rhoR, vR, PR, m, p.x(), E, F[0], F[1], F[2]);
  return ok ? 0 : 1;
}

static int mirror(double g, double rho, double v, double P, const char *origin) {
  HLLCRiemannSolver s(g);
  double m = 0., E = 0.;
  CoordinateVector<> p, n(1., 0., 0.);
  s.solve_for_flux(rho, CoordinateVector<>(v, 0.3, 0.), P, rho, CoordinateVector<>(-v, 0.3, 0.), P, m, p, E, n);
  const double a = std::sqrt(g * P / rho);
  if (std::abs(m) > 1.e-12 * rho * a || std::abs(E) > 1.e-12 * (P + rho * v * v) * a) {
    std::printf("REPRODUCED (%s): real HLLCRiemannSolver(gamma=%g): mirror-image states rho=%g, P=%g approaching each other with v=+-%g (Mach %g) exchange mass flux %g and ENERGY flux %g "
                "across their interface (a reflecting wall leaks)\n", origin, g, rho, P, v, v / a, m, E);
    return 1;
  }
  return 0;
}

/* gas next to vacuum: the problem and its mirror image (states exchanged, velocities and normal reversed) must give
 * mirror-image fluxes: mass and energy flux negated, normal momentum flux equal */
template <class Solver> static int vacuum_mirror(const Solver &s, const char *name, double g, double rho, double u, double P, const char *origin) {
  double m1 = 0., E1 = 0., m2 = 0., E2 = 0.;
  CoordinateVector<> p1, p2, n(1., 0., 0.);
  /* gas on the left moving with +u, vacuum on the right */
  s.solve_for_flux(rho, CoordinateVector<>(u, 0., 0.), P, 0., CoordinateVector<>(0.), 0., m1, p1, E1, n);
  /* mirror image: vacuum on the left, gas on the right moving with -u */
  s.solve_for_flux(0., CoordinateVector<>(0.), 0., rho, CoordinateVector<>(-u, 0., 0.), P, m2, p2, E2, n);
  const double a = std::sqrt(g * P / rho), sc = rho * (std::abs(u) + a);
  if (std::abs(m1 + m2) > 1.e-10 * sc || std::abs(p1.x() - p2.x()) > 1.e-10 * (sc * (std::abs(u) + a) + P) || std::abs(E1 + E2) > 1.e-10 * (sc * (std::abs(u) + a) + P) * (std::abs(u) + a)) {
    std::printf("REPRODUCED (%s): real %s(gamma=%g): gas rho=%g, P=%g moving with u=%g towards/away from vacuum: flux with the vacuum on the right = (%.10g, %.10g, %.10g), "
                "mirror-image problem (vacuum on the left, gas moving with %g) = (%.10g, %.10g, %.10g) - not mirror images (mass/energy flux should be negated, momentum flux equal)\n",
                origin, name, g, rho, P, u, m1, p1.x(), E1, -u, m2, p2.x(), E2);
    return 1;
  }
  return 0;
}

static int vacuum_scenarios(const char *origin) {
  int bad = 0;
  const double g = 5. / 3.;
  HLLCRiemannSolver h(g);
  ExactRiemannSolver e(g);
  for (double u : {0., 0.4, -0.4, 1.0, -2.5}) {
    if (!bad) bad |= vacuum_mirror(h, "HLLCRiemannSolver", g, 1., u, 1., origin);
    if (!bad) bad |= vacuum_mirror(e, "ExactRiemannSolver", g, 1., u, 1., origin);
  }
  return bad;
}

static int fidelity(uint64_t seed, long n) {
  CMRng rng(seed);
  long cases = 0;
  while (cases < n) {
    const double g = 1.05 + 0.95 * rng.unit();
    const double rhoL = std::pow(10., -1. + 2. * rng.unit()), PL = std::pow(10., -1. + 2. * rng.unit());
    const double rhoR = std::pow(10., -1. + 2. * rng.unit()), PR = std::pow(10., -1. + 2. * rng.unit());
    const double vL = -2. + 4. * rng.unit(), vR = -2. + 4. * rng.unit();
    CM_FID_CHECK(compare(g, rhoL, vL, PL, rhoR, vR, PR, "differential check", true) == 0, "HLLC flux vs textbook HLLC, case %ld", cases);
    ++cases;
  }
  CM_FID_CHECK(vacuum_scenarios("differential check") == 0, "vacuum mirror scenarios%s", "");
  std::printf("FIDELITY OK cases=%ld\n", cases);
  return 0;
}

static int replay(const char *path) {
  CMInputs in;
  if (!in.load(path)) return 2;
  int bad = 0;
  const double g = 5. / 3.;
  if (in.job.find("vacuum") != std::string::npos) {
    bad = vacuum_scenarios("native boundary search");
    if (!bad) std::printf("NOT-REPRODUCED\n");
    return bad;
  }
  if (in.has("in_rhoL") && in.has("in_PL") && in.has("in_rhoR") && in.has("in_PR") && in.has("in_vL") && in.has("in_vR")) {
    const double rhoL = in.f64("in_rhoL"), PL = in.f64("in_PL"), rhoR = in.f64("in_rhoR"), PR = in.f64("in_PR"), vL = in.f64("in_vL"), vR = in.f64("in_vR");
    if (rhoL > 0. && PL > 0. && rhoR > 0. && PR > 0.) {
      bad |= compare(g, rhoL, vL, PL, rhoR, vR, PR, "outer states of the verifier's counterexample", true);
      if (rhoL == rhoR && PL == PR && vL == -vR) bad |= mirror(g, rhoL, vL, PL, "verifier counterexample");
    }
  }
  if (!bad) {
    const double c[][6] = {{1, 0.3, 1, 1, -0.3, 1}, {1, 0, 1, 0.125, 0, 0.1}, {1, 0.75, 1, 0.125, 0, 0.1}, {2, 0.5, 3, 1, 0.2, 1}, {1, 0.1, 1, 1.1, 0.05, 1.05}};
    for (int k = 0; k < 5 && !bad; ++k) bad |= compare(g, c[k][0], c[k][1], c[k][2], c[k][3], c[k][4], c[k][5], "native boundary search", true);
    for (double v : {0.3, 0.05, -0.2, 0.8}) if (!bad) bad |= mirror(g, 1., v, 1., "native boundary search");
  }
  if (!bad) std::printf("NOT-REPRODUCED\n");
  return bad;
}

int main(int argc, char **argv) {
  if (argc >= 4 && std::string(argv[1]) == "fidelity") return fidelity(std::strtoull(argv[2], 0, 10), std::atol(argv[3]));
  if (argc >= 3 && std::string(argv[1]) == "replay") return replay(argv[2]);
  return 2;
}
