/* C04 native driver: the real HydroDensitySubGrid::update_conserved_variables on a one-cell subgrid (private members
 * reached with -fno-access-control): the positivity safeguard only intervenes below zero, pending increments are
 * consumed, results are never negative. */
#include "HLLCRiemannSolver.hpp"
#include "HydroBoundary.hpp"
#include "HydroDensitySubGrid.hpp"
#include "cm_replay.hpp"
#include <cmath>

static int one_cell(const double c[5], const double d[5], const double g[3], double eterm, double dt, bool verbose, const char *origin) {
  const double box[6] = {0., 0., 0., 1., 1., 1.};
  CoordinateVector< int_fast32_t > ncell(1, 1, 1);
  HydroDensitySubGrid grid(box, ncell);
  HydroVariables &hv = grid._hydro_variables[0];
  for (int k = 0; k < 5; ++k) { hv._conserved[k] = c[k]; hv._delta_conserved[k] = d[k]; }
  hv._gravitational_acceleration = CoordinateVector<>(g[0], g[1], g[2]);
  hv._energy_term = eterm;
  /* the values the update produces before the safeguard, with the same operations in the same order */
  const double mdt = c[0] * dt;
  double m = c[0], e = c[4];
  e += dt * (c[1] * g[0] + c[2] * g[1] + c[3] * g[2]);
  e += eterm;
  m += d[0] * dt;
  e += d[4] * dt;
  (void)mdt;
  grid.update_conserved_variables(dt);
  int bad = 0;
  const double m2 = hv._conserved[0], e2 = hv._conserved[4];
  const double em = (m < 0.) ? 0. : m, ee = (e < 0.) ? 0. : e;
  if (m2 < 0. || e2 < 0.) { bad = 1; if (verbose) std::printf("REPRODUCED (%s): negative mass/energy after the update: %g %g\n", origin, m2, e2); }
  if (!(cm_bits(m2) == cm_bits(em) || (m2 != m2 && em != em))) { bad = 1; if (verbose) std::printf("REPRODUCED (%s): mass after the update is %a, expected max(updated value, 0) = %a\n", origin, m2, em); }
  if (!(cm_bits(e2) == cm_bits(ee) || (e2 != e2 && ee != ee))) { bad = 1; if (verbose) std::printf("REPRODUCED (%s): total energy after the update is %a but the updated value %a is not below zero: the positivity safeguard intervened although it should not (momentum %g %g %g, mass %g)\n", origin, e2, ee, hv._conserved[1], hv._conserved[2], hv._conserved[3], m2); }
  for (int k = 0; k < 5; ++k) if (hv._delta_conserved[k] != 0.) { bad = 1; if (verbose) std::printf("REPRODUCED (%s): pending increment %d not reset\n", origin, k); }
  return bad;
}

static int scenarios(bool verbose, const char *origin) {
  int bad = 0;
  /* cold, strongly supersonic cell: total energy positive but below the kinetic energy p^2/(2m) */
  { const double c[5] = {1., 3., 0., 0., 2.}, d[5] = {0., 0., 0., 0., 0.}, g[3] = {0., 0., 0.}; bad |= one_cell(c, d, g, 0., 1., verbose, origin); }
  { const double c[5] = {2., 0., 8., 0., 1.}, d[5] = {-0.5, 0., 0., 0., 0.25}, g[3] = {0., 0., 0.}; bad |= one_cell(c, d, g, 0., 0.5, verbose, origin); }
  /* ordinary warm cell, and cells driven below zero */
  { const double c[5] = {1., 0.1, 0., 0., 5.}, d[5] = {0.1, 0., 0., 0., -0.2}, g[3] = {0., 0., -1.}; bad |= one_cell(c, d, g, 0.01, 0.1, verbose, origin); }
  { const double c[5] = {1., 0., 0., 0., 1.}, d[5] = {-3., 0., 0., 0., -4.}, g[3] = {0., 0., 0.}; bad |= one_cell(c, d, g, 0., 1., verbose, origin); }
  return bad;
}

static int fidelity(uint64_t seed, long n) {
  CMRng rng(seed);
  long cases = 0;
  CM_FID_CHECK(!scenarios(true, "fidelity"), "real update_conserved_variables violates the contract scenarios");
  for (; cases < n / 10; ++cases) {
    double c[5], d[5], g[3];
    for (int k = 0; k < 5; ++k) { c[k] = 4 * rng.unit() - (k == 0 || k == 4 ? 0. : 2.); d[k] = 2 * rng.unit() - 1.; }
    for (int k = 0; k < 3; ++k) g[k] = rng.unit() - 0.5;
    CM_FID_CHECK(!one_cell(c, d, g, rng.unit() * 0.1, rng.unit(), true, "fidelity"), "real update_conserved_variables violates the contract on a random cell");
  }
  std::printf("FIDELITY OK cases=%ld\n", cases + 4);
  return 0;
}

/* reflecting wall: the face states reconstructed on both sides of the wall from the real ghost state are mirror images */
static int reflective_scenarios(void) {
  int bad = 0;
  ReflectiveHydroBoundary wall;
  HydroVariables cell;
  for (int j = 0; j < 5; ++j) {
    cell.primitives(j) = 1.5 + 0.25 * j;
    cell.primitive_gradients(j) = CoordinateVector<>(0.125 * (j + 1), -0.375 * (j + 2), 0.0625 * (j + 3));
  }
  const double d = 0.5;
  for (int i = 0; i < 3 && !bad; ++i) for (int o = -1; o <= 1 && !bad; o += 2) {
    const HydroVariables ghost = wall.get_right_state_flux_variables(i, o, CoordinateVector<>(0.), cell);
    for (int j = 0; j < 5; ++j) {
      const double qL = cell.primitives(j) + cell.primitive_gradients(j)[i] * d;
      const double qR = ghost.primitives(j) - ghost.primitive_gradients(j)[i] * d;
      const bool ok = (j == 1 + i) ? (qR == -qL) : (qR == qL);
      if (!ok) {
        std::printf("REPRODUCED (native boundary search): real ReflectiveHydroBoundary::get_right_state_flux_variables(i=%d): primitive %d reconstructed at the wall is %a on the cell side and %a on the ghost side - not mirror images\n", i, j, qL, qR);
        bad = 1;
      }
    }
    const HydroVariables ghost2 = wall.get_right_state_gradient_variables(i, o, CoordinateVector<>(0.), cell);
    for (int j = 0; j < 5; ++j) {
      const bool ok = (j == 1 + i) ? (ghost2.primitives(j) == -cell.primitives(j)) : (ghost2.primitives(j) == cell.primitives(j));
      if (!ok) { std::printf("REPRODUCED (native boundary search): real ReflectiveHydroBoundary::get_right_state_gradient_variables(i=%d): primitive %d is not mirrored\n", i, j); bad = 1; }
    }
  }
  return bad;
}

/* reflecting wall, solver side: mirror-image states exchange neither mass nor energy */
static int wall_flux_scenarios(void) {
  int bad = 0;
  const double g = 5. / 3.;
  HLLCRiemannSolver s(g);
  for (double v : {0.3, 0.05, -0.2, 0.8}) {
    double m = 0., E = 0.;
    CoordinateVector<> p, n(1., 0., 0.);
    s.solve_for_flux(1., CoordinateVector<>(v, 0.3, 0.), 1., 1., CoordinateVector<>(-v, 0.3, 0.), 1., m, p, E, n);
    const double a = std::sqrt(g);
    if (std::abs(m) > 1.e-12 * a || std::abs(E) > 1.e-12 * (1. + v * v) * a) {
      std::printf("REPRODUCED (native boundary search): real HLLCRiemannSolver: a cell state rho=1, P=1, v=%g and its mirror image (the ghost of a reflecting wall) exchange mass flux %g and ENERGY flux %g: the wall leaks energy\n", v, m, E);
      bad = 1;
    }
  }
  return bad;
}

static int replay(const char *path) {
  CMInputs in;
  if (!in.load(path)) return 2;
  if (in.job.find("hllc") != std::string::npos) {
    int b = wall_flux_scenarios();
    if (!b) std::printf("NOT-REPRODUCED\n");
    return b;
  }
  if (in.job.find("reflective") != std::string::npos) {
    int b = reflective_scenarios();
    if (!b) std::printf("NOT-REPRODUCED\n");
    return b;
  }
  int bad = scenarios(true, "native boundary search");
  if (!bad) std::printf("NOT-REPRODUCED\n");
  return bad;
}

int main(int argc, char **argv) {
  if (argc >= 4 && std::string(argv[1]) == "fidelity") return fidelity(std::strtoull(argv[2], 0, 10), std::atol(argv[3]));
  if (argc >= 3 && std::string(argv[1]) == "replay") return replay(argv[2]);
  return 2;
}
