/* C09 native driver: the real HydroDensitySubGrid is constructed, dumped to a
 * real restart file, restored from it, and every member of the physical state
 * is compared bit for bit (this is the contract's postcondition evaluated on
 * the real classes). fidelity: random/boundary geometries; replay: the
 * verifier's counterexample geometry, then a few everyday geometries. */
#include "HydroDensitySubGrid.hpp"
#include "RestartReader.hpp"
#include "YAMLDictionary.hpp"
#include "RestartWriter.hpp"
#include "cm_replay.hpp"
#include <unistd.h>

static int roundtrip(const double *box, const int_fast32_t *n, bool verbose, const char *origin) {
  CoordinateVector< int_fast32_t > ncell(n[0], n[1], n[2]);
  HydroDensitySubGrid a(box, ncell);
  for (int i = 0; i < TRAVELDIRECTION_NUMBER; ++i) a.set_neighbour(i, 1000 + i);
  a.set_owning_thread(3);
  char name[] = "/var/tmp/verif_c09_XXXXXX";
  int fd = mkstemp(name);
  if (fd < 0) { perror("mkstemp"); std::exit(2); }
  close(fd);
  { RestartWriter w(name); a.write_restart_file(w); }
  int bad = 0;
  {
    RestartReader r(name);
    HydroDensitySubGrid b(r);
#define CMP(expr, what) do { if (cm_bits((double)(a.expr)) != cm_bits((double)(b.expr))) { bad = 1; if (verbose) std::printf("REPRODUCED (%s; box sides %a %a %a, cells %ld %ld %ld): %s differs after restart: dumped %a, restarted %a\n", origin, box[3], box[4], box[5], (long)n[0], (long)n[1], (long)n[2], what, (double)(a.expr), (double)(b.expr)); } } while (0)
    for (int k = 0; k < 3; ++k) {
      CMP(_anchor[k], "_anchor"); CMP(_cell_size[k], "_cell_size"); CMP(_inv_cell_size[k], "_inv_cell_size"); CMP(_cell_areas[k], "_cell_areas");
      CMP(_number_of_cells[k], "_number_of_cells");
    }
    CMP(_number_of_cells[3], "_number_of_cells[3]"); CMP(_cell_volume, "_cell_volume"); CMP(_inverse_cell_volume, "_inverse_cell_volume"); CMP(_owning_thread, "_owning_thread");
    for (int i = 0; i < TRAVELDIRECTION_NUMBER; ++i) CMP(_ngbs[i], "_ngbs");
    /* write(read(write(x))) == write(x) as bytes */
    char name2[] = "/var/tmp/verif_c09_XXXXXX";
    int fd2 = mkstemp(name2); close(fd2);
    { RestartWriter w2(name2); b.write_restart_file(w2); }
    std::ifstream f1(name, std::ios::binary), f2(name2, std::ios::binary);
    std::string s1((std::istreambuf_iterator< char >(f1)), std::istreambuf_iterator< char >()), s2((std::istreambuf_iterator< char >(f2)), std::istreambuf_iterator< char >());
    if (s1 != s2) { bad = 1; if (verbose) std::printf("REPRODUCED (%s): dump of the restored subgrid differs from the original dump\n", origin); }
    unlink(name2);
  }
  unlink(name);
  return bad;
}

static int fidelity(uint64_t seed, long n) {
  CMRng rng(seed);
  long cases = 0;
  for (; cases < n / 200 + 20; ++cases) {
    double box[6] = {rng.unit() - 0.5, rng.unit() - 0.5, rng.unit() - 0.5, 0.1 + 3 * rng.unit(), 0.1 + 3 * rng.unit(), 0.1 + 3 * rng.unit()};
    int_fast32_t nc[3] = {(int_fast32_t)(1 + rng.below(9)), (int_fast32_t)(1 + rng.below(9)), (int_fast32_t)(1 + rng.below(9))};
    CM_FID_CHECK(!roundtrip(box, nc, true, "fidelity"), "real HydroDensitySubGrid restart round trip differs");
  }
  std::printf("FIDELITY OK cases=%ld\n", cases);
  return 0;
}

/* parameter dictionary: a dictionary with explicit values, defaulted values and unused keys is the same after a
 * dump / restore, and a defaulted parameter is defaulted again (to the bit) by the restored dictionary */
static int yaml_roundtrip(void) {
  int bad = 0;
  YAMLDictionary d;
  d.add_value("Hydro:polytropic index explicit", "1.4");
  d.add_value("SimulationBox:anchor", "[0. m, 0. m, 0. m]");
  const double g0 = d.get_value< double >("Hydro:polytropic index", 5. / 3.);
  const double t0 = d.get_value< double >("Hydro:CFL constant", 0.2);
  const double e0 = d.get_value< double >("Hydro:polytropic index explicit", 5. / 3.);
  const char *name = "/var/tmp/cm_c09_yaml_restart.dump";
  { RestartWriter w(name); d.write_restart_file(w); }
  RestartReader r(name);
  YAMLDictionary b(r);
  std::remove(name);
  if (b._dictionary != d._dictionary || b._used_values != d._used_values) {
    std::printf("REPRODUCED (native boundary search): real YAMLDictionary after dump/restore: the parameter dictionary differs (e.g. a defaulted key no longer marked as defaulted)\n");
    bad = 1;
  }
  const double g1 = b.get_value< double >("Hydro:polytropic index", 5. / 3.);
  const double t1 = b.get_value< double >("Hydro:CFL constant", 0.2);
  const double e1 = b.get_value< double >("Hydro:polytropic index explicit", 5. / 3.);
  if (cm_bits(g1) != cm_bits(g0) || cm_bits(t1) != cm_bits(t0) || cm_bits(e1) != cm_bits(e0)) {
    std::printf("REPRODUCED (native boundary search): real YAMLDictionary after dump/restore: defaulted parameter 'Hydro:polytropic index' is %.17g (0x%llx), the uninterrupted run uses %.17g (0x%llx)\n",
                g1, (unsigned long long)cm_bits(g1), g0, (unsigned long long)cm_bits(g0));
    bad = 1;
  }
  return bad;
}

static int replay(const char *path) {
  CMInputs in;
  if (!in.load(path)) return 2;
  int bad = 0;
  if (in.job.find("yaml") != std::string::npos) {
    bad = yaml_roundtrip();
    if (!bad) std::printf("NOT-REPRODUCED\n");
    return bad;
  }
  if (in.has("in_b3") && in.has("in_n0")) {
    double box[6] = {in.f64("in_b0"), in.f64("in_b1"), in.f64("in_b2"), in.f64("in_b3"), in.f64("in_b4"), in.f64("in_b5")};
    int_fast32_t nc[3] = {(int_fast32_t)in.i64("in_n0"), (int_fast32_t)in.i64("in_n1"), (int_fast32_t)in.i64("in_n2")};
    if (nc[0] >= 1 && nc[1] >= 1 && nc[2] >= 1 && nc[0] * nc[1] * nc[2] <= 4000000) bad |= roundtrip(box, nc, true, "verifier counterexample");
  }
  if (!bad) {
    const double sides[] = {1., 3., 0.7, 2.5};
    const int_fast32_t ns[] = {49, 7, 10, 3};
    for (int i = 0; i < 4 && !bad; ++i) { double box[6] = {0., 0., 0., sides[i], sides[(i + 1) % 4], sides[(i + 2) % 4]}; int_fast32_t nc[3] = {ns[i], ns[(i + 1) % 4], ns[(i + 2) % 4]}; bad |= roundtrip(box, nc, true, "native everyday geometry"); }
  }
  if (!bad) std::printf("NOT-REPRODUCED\n");
  return bad;
}

int main(int argc, char **argv) {
  if (argc >= 4 && std::string(argv[1]) == "fidelity") return fidelity(std::strtoull(argv[2], 0, 10), std::atol(argv[3]));
  if (argc >= 3 && std::string(argv[1]) == "replay") return replay(argv[2]);
  return 2;
}
