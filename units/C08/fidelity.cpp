/* C08 native driver: replays lock/queue scenarios on the REAL classes
 * (Task, ThreadLock, TaskQueue, ThreadSafeVector). "Another thread holding a
 * lock" is simulated by acquiring it through the real try_lock() beforehand. */
#include "Task.hpp"
#include "TaskQueue.hpp"
#include "ThreadLock.hpp"
#include "ThreadSafeVector.hpp"
#include "cm_replay.hpp"

/* exhaustive small enumeration for Task::lock_dependency: each dependency is absent / free / held by another thread */
static int check_lock_dependency() {
  int bad = 0;
  for (int s0 = 0; s0 < 3; ++s0)
    for (int s1 = 0; s1 < 3; ++s1) {
      if (s0 == 0 && s1 != 0) continue; /* data invariant: a second lock only with a first one */
      ThreadLock A, B;
      Task t;
      if (s0) t.set_dependency(&A);
      if (s1) t.set_extra_dependency(&B);
      if (s0 == 2) A.try_lock();
      if (s1 == 2) B.try_lock();
      const bool got = t.lock_dependency();
      const bool expect = (s0 != 2) && (s1 != 2);
      if (got != expect) { std::printf("REPRODUCED: lock_dependency returned %d with dep0 %s, dep1 %s\n", (int)got, s0 == 2 ? "held by another thread" : s0 ? "free" : "absent", s1 == 2 ? "held by another thread" : s1 ? "free" : "absent"); bad = 1; }
      /* state of the locks afterwards: probing with try_lock tells whether a lock is taken */
      const bool a_taken = !A.try_lock();
      const bool b_taken = !B.try_lock();
      const bool a_should = s0 == 2 || (s0 == 1 && got);
      const bool b_should = s1 == 2 || (s1 == 1 && got);
      if (s0 && a_taken != a_should) { std::printf("REPRODUCED: after lock_dependency()=%d first lock is %s but should be %s (dep0 %s, dep1 %s)\n", (int)got, a_taken ? "taken" : "free", a_should ? "taken" : "free", s0 == 2 ? "held by another thread" : "free", s1 == 2 ? "held by another thread" : s1 ? "free" : "absent"); bad = 1; }
      if (s1 && b_taken != b_should) { std::printf("REPRODUCED: after lock_dependency()=%d second lock is %s but should be %s: a lock held by another thread was released / a lock was leaked (dep0 %s, dep1 %s)\n", (int)got, b_taken ? "taken" : "free", b_should ? "taken" : "free", s0 == 2 ? "held by another thread" : "free", s1 == 2 ? "held by another thread" : "free"); bad = 1; }
    }
  return bad;
}

/* queue scenarios: entries with/without lockable dependencies; after every operation the queue lock must be free */
static int check_queue() {
  int bad = 0;
  for (int nq = 0; nq <= 3; ++nq)
    for (int mask = 0; mask < (1 << nq); ++mask)
      for (int use_try = 0; use_try < 2; ++use_try) {
        ThreadSafeVector< Task > tasks(8);
        ThreadLock locks[3];
        TaskQueue q(4);
        size_t idx[3];
        for (int k = 0; k < nq; ++k) {
          idx[k] = tasks.get_free_element();
          tasks[idx[k]].set_dependency(&locks[k]);
          if (mask & (1 << k)) locks[k].try_lock(); /* held by another thread */
          q.add_task(idx[k]);
        }
        const size_t got = use_try ? q.try_get_task(tasks) : q.get_task(tasks);
        /* expected: the last entry whose lock is free */
        size_t expect = NO_TASK;
        for (int k = nq - 1; k >= 0; --k) if (!(mask & (1 << k))) { expect = idx[k]; break; }
        if (got != expect) { std::printf("REPRODUCED: %s returned %zu, expected %zu (queue of %d, held mask %d)\n", use_try ? "try_get_task" : "get_task", got, expect, nq, mask); bad = 1; }
        if (q.size() != (size_t)nq - (expect != NO_TASK ? 1 : 0)) { std::printf("REPRODUCED: queue size %zu after pop (queue of %d, held mask %d)\n", q.size(), nq, mask); bad = 1; }
        /* what is left in the queue: every other entry exactly once, order kept (read through the real array) */
        {
          size_t pos = 0;
          for (int k = 0; k < nq; ++k) {
            if (idx[k] == expect) continue;
            if (pos >= q.size() || q._queue[pos] != idx[k]) {
              std::printf("REPRODUCED: after %s handed out task %zu the queue no longer holds the other entries once each in order (position %zu holds %zu, expected %zu; queue of %d, held mask %d): a task is lost or handed out twice\n",
                          use_try ? "try_get_task" : "get_task", got, pos, pos < q.size() ? q._queue[pos] : (size_t)-1, idx[k], nq, mask);
              bad = 1;
              break;
            }
            ++pos;
          }
        }
        /* the queue lock must be free again */
        if (!q._queue_lock.try_lock()) { std::printf("REPRODUCED: %s left the queue lock held (queue of %d entries, held mask %d): every later get_task/add_task spins forever\n", use_try ? "try_get_task" : "get_task", nq, mask); bad = 1; }
        else q._queue_lock.unlock();
      }
  return bad;
}

static int fidelity(uint64_t, long) {
  /* the scenarios are the differential oracle for this unit: the real classes must behave as the contracts say */
  int bad = check_lock_dependency() | check_queue();
  if (bad) { std::fprintf(stderr, "FIDELITY MISMATCH: real classes violate the contract scenarios\n"); return 1; }
  std::printf("FIDELITY OK cases=%d\n", 7 + 30);
  return 0;
}

static int replay(const char *path) {
  CMInputs in;
  if (!in.load(path)) return 2;
  int bad = 0;
  if (in.job.find("dependency") != std::string::npos || in.job.find("lock") != std::string::npos) bad |= check_lock_dependency();
  if (in.job.find("task") != std::string::npos || in.job.find("queue") != std::string::npos) bad |= check_queue();
  if (!bad) std::printf("NOT-REPRODUCED: native scenario enumeration satisfied the contracts\n");
  return bad;
}

int main(int argc, char **argv) {
  if (argc >= 4 && std::string(argv[1]) == "fidelity") return fidelity(std::strtoull(argv[2], 0, 10), std::atol(argv[3]));
  if (argc >= 3 && std::string(argv[1]) == "replay") return replay(argv[2]);
  return 2;
}
