/* C06 native driver: the REAL IonizationStateCalculator::compute_ionization_state_hydrogen (its translation unit is
 * compiled from /repo's working tree; the other functions of that file stay unresolved and are never called). */
#include "IonizationStateCalculator.hpp"
#include "cm_replay.hpp"
#include <cmath>

static int check(double alphaH, double jH, double nH, const char *origin) {
  const double x = IonizationStateCalculator::compute_ionization_state_hydrogen(alphaH, jH, nH);
  int bad = 0;
  if (!(x == x) || !(x >= 1.e-14) || !(x <= 1.)) { std::printf("REPRODUCED (%s): compute_ionization_state_hydrogen(alphaH=%a, jH=%a, nH=%a) = %g is not in [1e-14, 1]\n", origin, alphaH, jH, nH, x); bad = 1; }
  if ((jH == 0. || nH == 0.) && x != 1.) { std::printf("REPRODUCED (%s): no radiation or no gas but neutral fraction %g != 1\n", origin, x); bad = 1; }
  return bad;
}

static int fidelity(uint64_t seed, long n) {
  CMRng rng(seed);
  long cases = 0;
  for (; cases < n; ++cases) {
    const double a = std::pow(10., -22 + 10 * rng.unit()), j = rng.below(10) == 0 ? 0. : std::pow(10., -30 + 40 * rng.unit()), d = rng.below(10) == 0 ? 0. : std::pow(10., -5 + 20 * rng.unit());
    CM_FID_CHECK(!check(a, j, d, "fidelity"), "real closed form outside [1e-14,1]");
  }
  std::printf("FIDELITY OK cases=%ld\n", cases);
  return 0;
}

static int replay(const char *path) {
  CMInputs in;
  if (!in.load(path)) return 2;
  int bad = 0;
  if (in.has("in_alphaH")) {
    const double a = in.f64("in_alphaH"), j = in.f64("in_jH"), d = in.f64("in_nH");
    if (std::isfinite(a) && a > 0. && std::isfinite(j) && j >= 0. && std::isfinite(d) && d >= 0.) bad |= check(a, j, d, "verifier counterexample");
  }
  if (!bad) std::printf("NOT-REPRODUCED\n");
  return bad;
}

int main(int argc, char **argv) {
  if (argc >= 4 && std::string(argv[1]) == "fidelity") return fidelity(std::strtoull(argv[2], 0, 10), std::atol(argv[3]));
  if (argc >= 3 && std::string(argv[1]) == "replay") return replay(argv[2]);
  return 2;
}
