/* C20 native driver: (1) fidelity of the extracted header logic of YAMLDictionary::print_contents against the
 * real printer; (2) replay of verifier counterexamples as print -> parse round trips of the real class. */
#include "YAMLDictionary.hpp"
#include "cm_replay.hpp"
#include <map>
#include <sstream>
#include <string>
#include <vector>

extern "C" {
struct cm_tokvec { size_t size; uint64_t data[20]; };
extern struct cm_tokvec groupname, keygroups;
extern size_t g_nhdr, g_indent;
extern size_t g_hdr_depth[20];
extern uint64_t g_hdr_tok[20];
void YD_print_groups(void);
}

typedef std::vector< std::string > Path;

static std::string join(const Path &p, const std::string &key) {
  std::string s;
  for (size_t i = 0; i < p.size(); ++i) s += p[i] + ":";
  return s + key;
}

/* print -> parse round trip of the real class for a dictionary with the given keys */
static bool roundtrip_ok(const std::vector< std::string > &keys, std::string *why) {
  YAMLDictionary d;
  for (size_t i = 0; i < keys.size(); ++i) d.add_value(keys[i], "v" + std::to_string(i));
  std::stringstream out;
  d.print_contents(out);
  std::istringstream in(out.str());
  YAMLDictionary back(in);
  if (back._dictionary != d._dictionary) {
    if (why) {
      *why = "printed\n" + out.str() + "parsed back as:";
      for (auto it = back._dictionary.begin(); it != back._dictionary.end(); ++it) *why += " [" + it->first + " = " + it->second + "]";
    }
    return false;
  }
  return true;
}

static int fidelity(uint64_t seed, long n) {
  CMRng rng(seed);
  long cases = 0;
  const char *names[] = {"a", "b", "ab", "c1", "c"};
  while (cases < n) {
    Path p[2];
    for (int k = 0; k < 2; ++k) {
      const int depth = (int)rng.below(5);
      for (int j = 0; j < depth; ++j) p[k].push_back(names[rng.below(5)]);
    }
    const std::string k0 = join(p[0], "x"), k1 = join(p[1], "y");
    if (k0 == k1) continue;
    YAMLDictionary d;
    d.add_value(k0, "1");
    d.add_value(k1, "2");
    std::stringstream out;
    d.print_contents(out);
    /* real: lines after the first key line */
    const Path &first = (d._dictionary.begin()->first == k0) ? p[0] : p[1];
    const Path &second = (d._dictionary.begin()->first == k0) ? p[1] : p[0];
    std::vector< std::pair< size_t, std::string > > hdr;
    size_t key_indent = 0;
    std::string line;
    int keylines = 0;
    while (std::getline(out, line)) {
      size_t ind = 0;
      while (ind < line.size() && line[ind] == ' ') ++ind;
      const bool is_header = line[line.size() - 1] == ':';
      if (keylines == 1 && is_header) hdr.push_back(std::make_pair(ind / 2, line.substr(ind, line.size() - ind - 1)));
      if (!is_header) { ++keylines; if (keylines == 2) key_indent = ind / 2; }
    }
    /* extracted C on the same two stacks (names as tokens by index in names[]) */
    std::map< std::string, uint64_t > tok;
    for (int j = 0; j < 5; ++j) tok[names[j]] = 100 + j;
    groupname.size = first.size();
    for (size_t j = 0; j < first.size(); ++j) groupname.data[j] = tok[first[j]];
    keygroups.size = second.size();
    for (size_t j = 0; j < second.size(); ++j) keygroups.data[j] = tok[second[j]];
    g_nhdr = 0;
    YD_print_groups();
    bool same = g_nhdr == hdr.size() && g_indent == key_indent;
    for (size_t j = 0; same && j < hdr.size(); ++j) same = g_hdr_depth[j] == hdr[j].first && g_hdr_tok[j] == tok[hdr[j].second];
    CM_FID_CHECK(same, "headers before key %s after key %s", join(second, "k").c_str(), join(first, "k").c_str());
    ++cases;
  }
  std::printf("FIDELITY OK cases=%ld\n", cases);
  return 0;
}

static int replay(const char *path) {
  CMInputs in;
  if (!in.load(path)) return 2;
  if (in.job.find("print_groups") == std::string::npos && in.job.find("parse_line") == std::string::npos) { std::printf("NOT-REPRODUCED: no native oracle for job %s\n", in.job.c_str()); return 0; }
  int bad = 0;
  std::string why;
  if (in.job.find("print_groups") != std::string::npos && in.has("in_gs") && in.has("in_ks")) {
    /* the verifier's two stacks as two keys of one dictionary: equal tokens get equal names; the names are chosen so
     * that the 'groupname' path sorts first where that is possible */
    std::map< uint64_t, std::string > name;
    Path g, k;
    const size_t gs = in.u64("in_gs"), ks = in.u64("in_ks");
    for (int pass = 0; pass < 2 && !bad; ++pass) {
      name.clear(); g.clear(); k.clear();
      int next = 0;
      for (size_t j = 0; j < 8; ++j) {
        if (!in.has("in_g" + std::to_string(j)) || !in.has("in_k" + std::to_string(j))) break;
        const uint64_t tg = in.u64("in_g" + std::to_string(j)), tk = in.u64("in_k" + std::to_string(j));
        const uint64_t a = pass ? tk : tg, b = pass ? tg : tk;
        if (!name.count(a)) name[a] = "n" + std::to_string(next++);
        if (!name.count(b)) name[b] = "n" + std::to_string(next++);
        if (j < gs) g.push_back(name[tg]);
        if (j < ks) k.push_back(name[tk]);
      }
      std::vector< std::string > keys;
      keys.push_back(join(g, "p"));
      keys.push_back(join(k, "q"));
      if (!roundtrip_ok(keys, &why)) { std::printf("REPRODUCED (verifier counterexample): dictionary {%s, %s}: %s\n", keys[0].c_str(), keys[1].c_str(), why.c_str()); bad = 1; }
    }
  }
  if (!bad) {
    /* native boundary search: all pairs of paths of depth <= 4 over two names per level */
    const char *nm[] = {"a", "b"};
    std::vector< Path > all;
    all.push_back(Path());
    for (size_t lo = 0, d = 0; d < 4; ++d) {
      const size_t hi = all.size();
      for (size_t q = lo; q < hi; ++q) for (int c = 0; c < 2; ++c) { Path p = all[q]; p.push_back(nm[c]); all.push_back(p); }
      lo = hi;
    }
    for (size_t x = 0; x < all.size() && !bad; ++x) for (size_t y = 0; y < all.size() && !bad; ++y) for (size_t z = 0; z < all.size() && !bad; z += 7) {
      std::vector< std::string > keys;
      keys.push_back(join(all[x], "p")); keys.push_back(join(all[y], "q")); keys.push_back(join(all[z], "r"));
      if (!roundtrip_ok(keys, &why)) { std::printf("REPRODUCED (native boundary search): dictionary {%s, %s, %s}: %s\n", keys[0].c_str(), keys[1].c_str(), keys[2].c_str(), why.c_str()); bad = 1; }
    }
  }
  if (!bad) std::printf("NOT-REPRODUCED\n");
  return bad;
}

int main(int argc, char **argv) {
  if (argc >= 4 && std::string(argv[1]) == "fidelity") return fidelity(std::strtoull(argv[2], 0, 10), std::atol(argv[3]));
  if (argc >= 3 && std::string(argv[1]) == "replay") return replay(argv[2]);
  return 2;
}
