/* C19 native driver: (a) fidelity: the extracted C (compiled natively) and the
 * real TimeLine class agree bit for bit on random construction/advance
 * histories; (b) replay: a CBMC counterexample is run against the REAL class
 * and the contract's postconditions are evaluated natively. */
/* built with -fno-access-control: private members of the real class are reachable */
#include "TimeLine.hpp"
#include "RestartReader.hpp"
#include "RestartWriter.hpp"
#include "cm_replay.hpp"
#include <unistd.h>
#include <cmath>

extern "C" {
extern uint64_t _minimum_timestep, _maximum_timestep, _current_time;
extern double _conversion_factors[2];
extern uint64_t g_step;
void TimeLine_ctor(double, double, double, double, void *);
bool TimeLine_advance(double, double *, double *);
}

static const uint64_t END = 0x8000000000000000ull;
static bool pow2(uint64_t x) { return x != 0 && (x & (x - 1)) == 0; }
static bool valid(const TimeLine &t) {
  const double A = t._conversion_factors[0];
  return pow2(t._minimum_timestep) && pow2(t._maximum_timestep) && t._minimum_timestep <= t._maximum_timestep &&
         t._maximum_timestep <= END && t._current_time <= END && ((END - t._current_time) & (t._minimum_timestep - 1)) == 0 &&
         std::isfinite(A) && A >= 0.;
}

static int fidelity(uint64_t seed, long n) {
  CMRng rng(seed);
  long cases = 0;
  while (cases < n) {
    double start = (rng.unit() - 0.3) * std::pow(10., (int)rng.below(30) - 10);
    double len = rng.unit() * std::pow(10., (int)rng.below(40) - 15) + 1e-300;
    double end = start + len;
    if (!(end > start)) continue;
    double mn = rng.below(4) == 0 ? 0. : len * std::pow(2., -(int)rng.below(70)) * (0.5 + rng.unit());
    double mx = rng.below(4) == 0 ? 0. : len * std::pow(2., -(int)rng.below(40)) * (0.5 + rng.unit());
    TimeLine real(start, end, mn, mx, nullptr);
    TimeLine_ctor(start, end, mn, mx, nullptr);
    CM_FID_CHECK(real._minimum_timestep == _minimum_timestep && real._maximum_timestep == _maximum_timestep &&
                     real._current_time == _current_time && cm_bits(real._conversion_factors[0]) == cm_bits(_conversion_factors[0]) &&
                     cm_bits(real._conversion_factors[1]) == cm_bits(_conversion_factors[1]),
                 "constructor start=%a end=%a min=%a max=%a", start, end, mn, mx);
    bool go = true;
    int steps = 0;
    while (go && steps < 60) {
      double req = len * std::pow(2., -(int)rng.below(66)) * (0.25 + 2 * rng.unit());
      if (rng.below(50) == 0) req = 0.;
      double a1, c1, a2, c2;
      bool r1 = real.advance(req, a1, c1);
      bool r2 = TimeLine_advance(req, &a2, &c2);
      CM_FID_CHECK(r1 == r2 && cm_bits(a1) == cm_bits(a2) && cm_bits(c1) == cm_bits(c2) && real._current_time == _current_time,
                   "advance req=%a", req);
      go = r1;
      ++steps;
      ++cases;
    }
  }
  std::printf("FIDELITY OK cases=%ld\n", cases);
  return 0;
}

static int replay(const char *path) {
  CMInputs in;
  if (!in.load(path)) return 2;
  if (in.job == "restart_roundtrip") {
    char name[64];
    std::snprintf(name, sizeof name, "/var/tmp/cm_c19_restart_%d.dump", (int)getpid());
    int bad = 0;
    for (int pass = 0; pass < 2 && !bad; ++pass) {
      /* pass 0: the verifier's state; pass 1: native boundary search over integer times of a unit time line */
      const uint64_t times[] = {0, 1, 3, (1ull << 53) + 1, (1ull << 63) + (1ull << 10) + 1, 0xfffffffffffffff0ull, 0x123456789abcdef1ull};
      for (int k = 0; k < (pass ? 7 : 1) && !bad; ++k) {
        TimeLine t(0., 1., 0., 0., nullptr);
        if (pass == 0) {
          if (!in.has("in_cur")) break;
          t._minimum_timestep = in.u64("in_min");
          t._maximum_timestep = in.u64("in_max");
          t._current_time = in.u64("in_cur");
          t._conversion_factors[0] = in.f64("in_A");
          t._conversion_factors[1] = in.f64("in_B");
        } else {
          t._current_time = times[k];
        }
        { RestartWriter w(name); t.write_restart_file(w); }
        RestartReader r(name);
        TimeLine b(r);
        const bool same = b._minimum_timestep == t._minimum_timestep && b._maximum_timestep == t._maximum_timestep && b._current_time == t._current_time &&
                          cm_bits(b._conversion_factors[0]) == cm_bits(t._conversion_factors[0]) && cm_bits(b._conversion_factors[1]) == cm_bits(t._conversion_factors[1]);
        if (!same) {
          std::printf("REPRODUCED (%s): real TimeLine with integer time %llu saved and restored: integer time %llu, min step %llu -> %llu, max step %llu -> %llu\n",
                      pass ? "native boundary search" : "verifier counterexample", (unsigned long long)t._current_time, (unsigned long long)b._current_time,
                      (unsigned long long)t._minimum_timestep, (unsigned long long)b._minimum_timestep, (unsigned long long)t._maximum_timestep, (unsigned long long)b._maximum_timestep);
          bad = 1;
        }
      }
    }
    std::remove(name);
    if (!bad) std::printf("NOT-REPRODUCED\n");
    return bad;
  }
  if (in.job == "advance") {
    TimeLine t(0., 1., 0., 0., nullptr);
    t._minimum_timestep = in.u64("in_min");
    t._maximum_timestep = in.u64("in_max");
    t._current_time = in.u64("in_cur");
    t._conversion_factors[0] = in.f64("in_A");
    t._conversion_factors[1] = in.f64("in_B");
    const double req = in.f64("in_req");
    if (!valid(t) || !(t._current_time < END) || req < 0.) {
      std::printf("NOT-REPRODUCED: counterexample state does not satisfy the precondition natively\n");
      return 0;
    }
    const uint64_t old = t._current_time;
    double actual = -1., current = -1.;
    const bool ret = t.advance(req, actual, current);
    const uint64_t step = t._current_time - old;
    std::printf("real TimeLine::advance(min=%llu max=%llu cur=%llu A=%a req=%a) -> ret=%d step=%llu actual=%a\n",
                (unsigned long long)t._minimum_timestep, (unsigned long long)t._maximum_timestep, (unsigned long long)old,
                t._conversion_factors[0], req, (int)ret, (unsigned long long)step, actual);
    int bad = 0;
#define POST(c, msg) do { if (!(c)) { std::printf("REPRODUCED: postcondition violated on the real class: %s\n", msg); bad = 1; } } while (0)
    POST(valid(t), "representation invariant after advance");
    POST(t._current_time >= old, "clock went backwards");
    POST(step != 0 || !ret, "clock did not move but run continues");
    POST(step == 0 || (pow2(step) && step >= t._minimum_timestep && step <= t._maximum_timestep), "step is a power of two within [min,max]");
    POST(step == 0 || ((END - old) % step) == 0, "step divides the time that was remaining");
    POST(t._current_time <= END, "clock beyond the end of the time line (overshoot)");
    POST(step == 0 || ret == (t._current_time < END), "continue flag == end not reached");
    POST(!(actual > req), "actual step larger than requested");
    POST(step != 0 || t._conversion_factors[0] * t._minimum_timestep > req, "run stopped although the request is not below the minimum");
    return bad;
  }
  if (in.job == "ctor") {
    const double s = in.f64("in_start"), e = in.f64("in_end"), mn = in.f64("in_minstep"), mx = in.f64("in_maxstep");
    if (!(std::isfinite(s) && std::isfinite(e) && s < e && std::isfinite(e - s))) { std::printf("NOT-REPRODUCED: precondition\n"); return 0; }
    TimeLine t(s, e, mn, mx, nullptr);
    int bad = 0;
    POST(valid(t), "representation invariant after construction");
    POST(t._current_time == 0, "clock starts at 0");
    POST(!(mx > 0. && t._maximum_timestep > t._minimum_timestep) || !(t._conversion_factors[0] * t._maximum_timestep > mx), "integer maximum exceeds configured maximum");
    POST(!(mn > 0. && t._minimum_timestep > 1) || !(t._conversion_factors[0] * t._minimum_timestep > mn), "integer minimum exceeds configured minimum");
    POST((mn > 0.) || t._minimum_timestep == 1, "no minimum configured => 1");
    POST((mx > 0.) || t._maximum_timestep == END, "no maximum configured => whole line");
    return bad;
  }
  std::printf("NOT-REPRODUCED: no native oracle for job %s\n", in.job.c_str());
  return 0;
}

int main(int argc, char **argv) {
  if (argc >= 4 && std::string(argv[1]) == "fidelity") return fidelity(std::strtoull(argv[2], 0, 10), std::atol(argv[3]));
  if (argc >= 3 && std::string(argv[1]) == "replay") return replay(argv[2]);
  return 2;
}
