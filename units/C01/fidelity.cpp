/* C01 native driver: the real DistributedPhotonSource constructor over a real DensitySubGridCreator with copies and
 * a two-source distribution (one strong, one very weak source): the packets handed out by get_photon_batch must add
 * up to exactly the number requested; and the real MemorySpace::add_photons must conserve packets at overflow. */
#include "DensitySubGridCreator.hpp"
#include "DistributedPhotonSource.hpp"
#include "HomogeneousDensityFunction.hpp"
#include "MemorySpace.hpp"
#include "PhotonSourceDistribution.hpp"
#include "cm_replay.hpp"
#include <vector>

class TwoSources : public PhotonSourceDistribution {
  double _w[2];
public:
  TwoSources(double weak) { _w[0] = 1. - weak; _w[1] = weak; }
  virtual photonsourcenumber_t get_number_of_sources() const { return 2; }
  virtual CoordinateVector<> get_position(photonsourcenumber_t i) { return i == 0 ? CoordinateVector<>(0.1, 0.1, 0.1) : CoordinateVector<>(0.9, 0.9, 0.9); }
  virtual double get_weight(photonsourcenumber_t i) const { return _w[i]; }
  virtual double get_total_luminosity() const { return 1.; }
};

static int split_case(size_t number_of_photons, double weak, uint_fast8_t level, bool verbose, const char *origin) {
  DensitySubGridCreator< DensitySubGrid > creator(Box<>(CoordinateVector<>(0.), CoordinateVector<>(1.)), CoordinateVector< int_fast32_t >(4, 4, 4),
                                                  CoordinateVector< int_fast32_t >(2, 2, 2), CoordinateVector< bool >(false, false, false));
  HomogeneousDensityFunction density_function;
  creator.initialize(density_function);
  std::vector< uint_fast8_t > levels(creator.number_of_original_subgrids(), 0);
  levels[0] = level;
  levels[levels.size() - 1] = level;
  creator.create_copies(levels);
  TwoSources distribution(weak);
  DistributedPhotonSource< DensitySubGrid > source(number_of_photons, distribution, creator);
  size_t handed_out = 0;
  for (size_t i = 0; i < source.get_number_of_sources(); ++i) {
    size_t batch;
    while ((batch = source.get_photon_batch(i, 200)) > 0) handed_out += batch;
  }
  if (handed_out != number_of_photons) {
    if (verbose) std::printf("REPRODUCED (%s): %zu packets requested (weak source weight %g, copy level %u) but the sources hand out %zu: requested != launched, the iteration can never account for all packets\n", origin, number_of_photons, weak, (unsigned)level, handed_out);
    return 1;
  }
  return 0;
}

static int scenarios(bool verbose, const char *origin) {
  int bad = 0;
  bad |= split_case(100000, 1.e-8, 2, verbose, origin);
  bad |= split_case(100000, 1.e-5, 3, verbose, origin);
  bad |= split_case(1000, 0.3, 1, verbose, origin);
  bad |= split_case(12345, 0.5, 0, verbose, origin);
  return bad;
}

int main(int argc, char **argv) {
  if (argc >= 4 && std::string(argv[1]) == "fidelity") { if (scenarios(true, "fidelity")) { std::fprintf(stderr, "FIDELITY MISMATCH: real DistributedPhotonSource violates the scenarios\n"); return 1; } std::printf("FIDELITY OK cases=4\n"); return 0; }
  if (argc >= 3 && std::string(argv[1]) == "replay") { int b = scenarios(true, "native boundary search"); if (!b) std::printf("NOT-REPRODUCED\n"); return b; }
  return 2;
}
