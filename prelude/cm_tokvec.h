/* Stand-in for std::vector<std::string> in code that only compares, copies and
 * stacks whole strings (YAMLDictionary's group-name stacks).
 *
 * A std::string is an identity token: two strings are equal iff their tokens
 * are equal (TRUSTED: std::string operator== / copy semantics). The vector is a
 * bounded array: exceeding CM_TOKVEC_CAP is a failed obligation (never silent
 * truncation); operator[] out of range and pop_back()/erase(end()-1) on an
 * empty vector are undefined behaviour in C++ and are obligations here.
 */
#ifndef CM_TOKVEC_H
#define CM_TOKVEC_H
#include "cm_prelude.h"
#ifndef CM_TOKVEC_CAP
#define CM_TOKVEC_CAP 12
#endif
typedef uint64_t cm_tok;
struct cm_tokvec { size_t size; cm_tok data[CM_TOKVEC_CAP]; };
static inline void cm_tokvec_push_back(struct cm_tokvec *v, cm_tok t) {
#ifndef CM_NATIVE
  __CPROVER_assert(v->size < CM_TOKVEC_CAP, "string-vector stand-in capacity (bound of this unit)");
#endif
  v->data[v->size] = t;
  v->size++;
}
static inline void cm_tokvec_pop_back(struct cm_tokvec *v) {
#ifndef CM_NATIVE
  __CPROVER_assert(v->size > 0, "pop_back()/erase(end()-1) on an empty vector (undefined behaviour)");
#endif
  v->size--;
}
static inline cm_tok *cm_tokvec_at(struct cm_tokvec *v, size_t i) {
#ifndef CM_NATIVE
  __CPROVER_assert(i < v->size, "vector operator[] out of range (undefined behaviour)");
#endif
  return &v->data[i];
}
#endif
