/* Prelude shared by all extracted units.
 *
 * Two modes:
 *  - CBMC (default): contract keywords are CBMC's own.
 *  - CM_NATIVE: the same extracted text is compiled by gcc for the fidelity
 *    test / native replay; contract keywords vanish.
 */
#ifndef CM_PRELUDE_H
#define CM_PRELUDE_H

#include <stdbool.h>
#include <stddef.h>
#include <stdint.h>

#ifdef CM_NATIVE
#define __CPROVER_requires(...)
#define __CPROVER_ensures(...)
#define __CPROVER_assigns(...)
#define __CPROVER_frees(...)
#define __CPROVER_loop_invariant(...)
#define __CPROVER_decreases(...)
#define __CPROVER_assert(c, m) ((void)0)
#define __CPROVER_assume(c) ((void)0)
#define __CPROVER_havoc_object(p) ((void)0)
extern void cm_native_error(const char *file, int line);
#define CM_ERROR() cm_native_error(__FILE__, __LINE__)
#define CM_PROMOTED_ASSERT(c) ((void)0)
#define CM_GHOST(stmt)
#else
/* abort paths become obligations: "never aborts" is proved, not assumed */
#define CM_ERROR()                                                             \
  do {                                                                         \
    __CPROVER_assert(0, "cmac_error reachable");                               \
    __CPROVER_assume(0);                                                       \
  } while (0)
#define CM_PROMOTED_ASSERT(c) __CPROVER_assert((c), "promoted cmac_assert: " #c)
#define CM_GHOST(stmt) stmt
#endif

/* std::min(a,b) = (b<a)?b:a ; std::max(a,b) = (a<b)?b:a  (libstdc++ stl_algobase.h),
 * same operand order, hence same NaN behaviour. Arguments in this code base are
 * side-effect free. */
#define CM_MIN(a, b) (((b) < (a)) ? (b) : (a))
#define CM_MAX(a, b) (((a) < (b)) ? (b) : (a))
#define CM_MIN_T(T, a, b) ((((T)(b)) < ((T)(a))) ? ((T)(b)) : ((T)(a)))
#define CM_MAX_T(T, a, b) ((((T)(a)) < ((T)(b))) ? ((T)(b)) : ((T)(a)))
#define CM_ABS(x) __builtin_fabs(x)
#define CM_INIT(member, value) member = (value)

/* CoordinateVector<T>: three components, default constructor zeroes them
 * (CoordinateVector.hpp:68); .x() .y() .z() are lowered to .c[0..2] */
struct cm_cv_double { double c[3]; };
struct cm_cv_int_fast32_t { int_fast32_t c[3]; };
struct cm_cv_int_fast8_t { int_fast8_t c[3]; };
struct cm_cv_uint_fast32_t { uint_fast32_t c[3]; };
struct cm_cv_uint32_t { uint32_t c[3]; };
struct cm_cv_int { int c[3]; };
struct cm_cv_bool { bool c[3]; };

/* delete p: C++ allows deleting a null pointer; anything else must be a live
 * allocation - CBMC's pointer checks on free() are exactly that obligation */
#include <stdlib.h>
#define CM_DELETE(p) free(p)
#define CM_DELETE_ARRAY(p) free(p)
/* TRUSTED: operator new returns fresh memory and does not fail (it throws instead) */
#define CM_NEW_ARRAY(T, n) ((T *)malloc(sizeof(T) * (n)))

/* bit pattern of a double, for predicates that must not introduce FP ops */
#define CM_BITS(x) (*(const uint64_t *)&(x))
#define CM_ISNAN(x) ((x) != (x))

/* power of two (non-zero) */
#define CM_IS_POW2(x) ((x) != 0 && (((x) & ((x)-1)) == 0))

#endif
