/* Bounded stand-in for std::vector<size_t> (TRUSTED: libstdc++ vector semantics for
 * push_back / back / size / operator[]; capacity CM_VEC_CAP is an explicit bound of the
 * units that use it: exceeding it is a failed obligation, not silent truncation). */
#ifndef CM_VEC_H
#define CM_VEC_H
#include "cm_prelude.h"
#ifndef CM_VEC_CAP
#define CM_VEC_CAP 8
#endif
struct cm_vec_size_t { size_t a[CM_VEC_CAP]; size_t n; };
static inline void cm_vec_push_back(struct cm_vec_size_t *v, size_t x) {
#ifndef CM_NATIVE
  __CPROVER_assert(v->n < CM_VEC_CAP, "vector stand-in capacity (bound of this unit)");
#endif
  v->a[v->n] = x;
  v->n++;
}
static inline void cm_vec_pop_back(struct cm_vec_size_t *v) {
#ifndef CM_NATIVE
  __CPROVER_assert(v->n > 0, "pop_back()/erase(end()-1) on an empty vector (undefined behaviour)");
#endif
  v->n--;
}
static inline size_t *cm_vec_back(struct cm_vec_size_t *v) { return &v->a[v->n - 1]; }
static inline size_t cm_vec_size(const struct cm_vec_size_t *v) { return v->n; }
#endif
