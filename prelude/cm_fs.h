/* Ghost file system for the restart-dump rotation (C14).
 *
 * File ids: 0 = <path>/restart.dump, 1+i = <path>/restart.<i>.back.
 * Per file: exists, complete (false while a dump is being written), dump id
 * (abstract content: the ordinal of the dump it holds).
 *
 * TRUSTED (POSIX): rename(a,b) fails without changing anything iff a does not
 * exist; otherwise atomically b := a and a disappears (an existing b is
 * replaced). Opening with std::ofstream(filename) creates/truncates the file.
 * A crash can happen between any two file-system operations and while the
 * new dump is being written: CRASH_POINT() is evaluated after every
 * operation (and at entry).
 */
#ifndef CM_FS_H
#define CM_FS_H
#include "cm_prelude.h"

#define FS_MAXB 64            /* capacity of the ghost directory: backups 0..63 */
#define FS_CAP (1 + FS_MAXB)
#define FN_MAIN ((uint_fast32_t)0)
#define FN_BACK(i) ((uint_fast32_t)1 + (uint_fast32_t)(i))

/* a name that is no file of the dump directory */
#define FN_NONE (~(uint_fast32_t)0)

/* std::stringstream used to build a file name: ghost name builder.
 * TRUSTED (C++ standard, [stringstream], [ios.base]): a default-constructed
 * stream is empty; operator<< appends; clear() resets only the error flags
 * (the contents stay); str("") empties it. A stream holds the name of backup i
 * exactly when "<path>/restart.<i>.back" was appended once to an empty stream. */
struct cm_ss { uint_fast32_t groups; uint_fast32_t file; };
static inline void cm_ss_append_backup_name(struct cm_ss *s, uint_fast32_t idx) {
  s->file = (s->groups == 0) ? FN_BACK(idx) : FN_NONE;
  if (s->groups < 2) s->groups++;
}
static inline uint_fast32_t cm_ss_file(const struct cm_ss *s) { return s->groups == 1 ? s->file : FN_NONE; }

bool fs_exists[FS_CAP];
bool fs_complete[FS_CAP];
uint64_t fs_dump[FS_CAP];

/* set by the unit: the crash-safety predicate */
#ifndef CM_NATIVE
#define CRASH_POINT() __CPROVER_assert(FS_CRASH_SAFE, "crash safety: a complete dump of the previous state is on disk")
#else
#define CRASH_POINT() ((void)0)
#endif

typedef struct cm_fs_writer { int dummy; } RestartWriter;
static RestartWriter cm_fs_the_writer;

#define REP8(P, b) (P((b) + 0) && P((b) + 1) && P((b) + 2) && P((b) + 3) && P((b) + 4) && P((b) + 5) && P((b) + 6) && P((b) + 7))
#define FORALL_BACKUPS(P) (REP8(P, 0) && REP8(P, 8) && REP8(P, 16) && REP8(P, 24) && REP8(P, 32) && REP8(P, 40) && REP8(P, 48) && REP8(P, 56))
#define OR8(P, b) (P((b) + 0) || P((b) + 1) || P((b) + 2) || P((b) + 3) || P((b) + 4) || P((b) + 5) || P((b) + 6) || P((b) + 7))
#define EXISTS_BACKUP(P) (OR8(P, 0) || OR8(P, 8) || OR8(P, 16) || OR8(P, 24) || OR8(P, 32) || OR8(P, 40) || OR8(P, 48) || OR8(P, 56))

#endif
