/* helpers shared by the native fidelity / replay drivers (C++) */
#ifndef CM_REPLAY_HPP
#define CM_REPLAY_HPP
#include <cstdint>
#include <cstdio>
#include <cstdlib>
#include <cstring>
#include <fstream>
#include <iostream>
#include <map>
#include <sstream>
#include <string>

extern "C" void cm_native_error(const char *file, int line) {
  std::fprintf(stderr, "extracted C reached cmac_error at %s:%d\n", file, line);
  std::exit(3);
}

struct CMInputs {
  std::map<std::string, uint64_t> bits;
  std::string obligation, description, job;
  bool load(const char *path) {
    std::ifstream f(path);
    if (!f) return false;
    std::string line;
    while (std::getline(f, line)) {
      std::istringstream ls(line);
      std::string key, val;
      ls >> key;
      if (key == "obligation") { ls >> obligation; continue; }
      if (key == "job") { ls >> job; continue; }
      if (key == "description") { std::getline(ls, description); continue; }
      ls >> val;
      uint64_t b = 0;
      for (char c : val) b = (b << 1) | (c == '1');
      bits[key] = b;
    }
    return true;
  }
  bool has(const std::string &k) const { return bits.count(k) > 0; }
  uint64_t u64(const std::string &k) const {
    auto it = bits.find(k);
    if (it == bits.end()) { std::fprintf(stderr, "replay input %s missing\n", k.c_str()); std::exit(2); }
    return it->second;
  }
  double f64(const std::string &k) const { uint64_t b = u64(k); double d; std::memcpy(&d, &b, 8); return d; }
  int32_t i32(const std::string &k) const { return (int32_t)(uint32_t)u64(k); }
  int64_t i64(const std::string &k) const { return (int64_t)u64(k); }
};

static inline uint64_t cm_bits(double d) { uint64_t b; std::memcpy(&b, &d, 8); return b; }
static inline double cm_from_bits(uint64_t b) { double d; std::memcpy(&d, &b, 8); return d; }

/* splitmix64: deterministic stream for the fidelity tests (seeded by VERIF_SEED) */
struct CMRng {
  uint64_t s;
  explicit CMRng(uint64_t seed) : s(seed * 0x9E3779B97F4A7C15ull + 0x1234567ull) {}
  uint64_t next() { uint64_t z = (s += 0x9E3779B97F4A7C15ull); z = (z ^ (z >> 30)) * 0xBF58476D1CE4E5B9ull; z = (z ^ (z >> 27)) * 0x94D049BB133111EBull; return z ^ (z >> 31); }
  double unit() { return (next() >> 11) * (1.0 / 9007199254740992.0); }
  uint64_t below(uint64_t n) { return next() % n; }
};

#define CM_FID_CHECK(cond, ...)                                                \
  do { if (!(cond)) { std::fprintf(stderr, "FIDELITY MISMATCH: " __VA_ARGS__); std::fprintf(stderr, "\n"); std::exit(1); } } while (0)

#endif
