/* Thread-modular stand-ins for std::atomic (DESIGN.md section 4.4).
 *
 * Contracts are sequential; the other threads are modelled INSIDE the atomic
 * primitives: every atomic access first lets "the environment" run, i.e. the
 * cell is havoced unless the ghost ownership says the calling thread owns it,
 * constrained only by the rely condition
 *   - other threads acquire a flag only by a successful CAS(false -> true),
 *   - other threads release only flags they hold (never one I hold).
 * The calling thread's own obligations (the guarantee) are asserted here:
 *   - a successful release CAS(true -> false) is only performed on a flag the
 *     caller holds ("a lock admits one holder at a time").
 * TRUSTED: each std::atomic operation is one indivisible, sequentially
 * consistent read-modify-write ("atomic counters never lose an update").
 */
#ifndef CM_ATOMIC_H
#define CM_ATOMIC_H
#include "cm_prelude.h"

#define CM_NOBODY 0
#define CM_ME 1
#define CM_OTHER 2

/* std::atomic<bool> used as an ownership flag */
typedef struct cm_atomic_bool {
  bool v;
  unsigned char owner; /* ghost */
} cm_atomic_bool;
#define CM_AB_CONSISTENT(a) ((a).owner <= CM_OTHER && ((a).v == 0 || (a).v == 1) && (((a).owner == CM_NOBODY) ? ((a).v == 0) : ((a).v == 1)))

/* ghost: set while the calling thread is the only one using the containers (phases the code documents as
 * 'not thread safe'): no interference then */
static bool cm_quiescent;
#ifndef CM_NATIVE
bool nondet_bool(void);
size_t nondet_size_t(void);
static inline void cm_interfere_bool(cm_atomic_bool *a) {
  if (a->owner != CM_ME && !cm_quiescent) {
    bool taken = nondet_bool();
    a->v = taken;
    a->owner = taken ? CM_OTHER : CM_NOBODY;
  }
}
#else
static inline void cm_interfere_bool(cm_atomic_bool *a) { (void)a; }
#endif

/* _value.compare_exchange_strong(expected, desired) */
static inline bool cm_atomic_bool_cas(cm_atomic_bool *a, bool *expected, bool desired) {
  cm_interfere_bool(a);
  if (a->v == *expected) {
#ifndef CM_NATIVE
    if (!desired && a->v)
      __CPROVER_assert(a->owner == CM_ME, "guarantee: a flag/lock is only released by the thread that holds it");
#endif
    a->v = desired;
    a->owner = desired ? CM_ME : CM_NOBODY;
    return true;
  }
  *expected = a->v;
  return false;
}
static inline bool cm_atomic_bool_load(cm_atomic_bool *a) {
  cm_interfere_bool(a);
  return a->v;
}

/* std::atomic<size_t> counters: other threads may have changed the value by
 * any amount before my operation; my own operation is applied atomically. The
 * ghost field mine accumulates the calling thread's own net contribution. */
typedef struct cm_atomic_size_t {
  size_t v;
  unsigned long mine; /* ghost: net number of increments by the calling thread (modulo 2^64) */
} cm_atomic_size_t;
#ifndef CM_NATIVE
static inline void cm_interfere_size_t(cm_atomic_size_t *a) { if (!cm_quiescent) a->v = nondet_size_t(); }
#else
static inline void cm_interfere_size_t(cm_atomic_size_t *a) { (void)a; }
#endif
static inline size_t cm_atomic_size_t_load(cm_atomic_size_t *a) { cm_interfere_size_t(a); return a->v; }
static inline void cm_atomic_size_t_store(cm_atomic_size_t *a, size_t v) { a->v = v; a->mine = 0; }
static inline size_t cm_atomic_size_t_post_inc(cm_atomic_size_t *a) { cm_interfere_size_t(a); a->mine++; return a->v++; }
static inline size_t cm_atomic_size_t_pre_inc(cm_atomic_size_t *a) { cm_interfere_size_t(a); a->mine++; return ++a->v; }
static inline size_t cm_atomic_size_t_pre_dec(cm_atomic_size_t *a) { cm_interfere_size_t(a); a->mine--; return --a->v; }

#endif
