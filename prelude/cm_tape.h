/* Ghost restart tape: stand-in for RestartWriter / RestartReader.
 *
 * The real classes write/read sizeof(T) raw bytes per call to/from a file
 * (RestartWriter.hpp:74, RestartReader.hpp:73; bool goes through
 * uint_least8_t). The tape records, per write, the byte count, whether the
 * value is a double, and the value (all scalar types used are <= 8 bytes). A read pops one record and
 * carries two obligations: there is a record left (no read past what was
 * written) and its byte count equals sizeof(T) (the dump is not mis-framed).
 * TRUSTED: std::ofstream/ifstream write/read transport bytes faithfully.
 */
#ifndef CM_TAPE_H
#define CM_TAPE_H
#include "cm_prelude.h"

#ifndef CM_TAPE_CAP
#define CM_TAPE_CAP 64
#endif

typedef struct cm_tape_handle { int dummy; } RestartWriter;
typedef struct cm_tape_handle RestartReader;

uint8_t cm_tape_size[CM_TAPE_CAP];
uint8_t cm_tape_isf64[CM_TAPE_CAP]; /* record holds a double */
uint64_t cm_tape_bits[CM_TAPE_CAP]; /* integer records: raw bits */
double cm_tape_f64[CM_TAPE_CAP];    /* double records: the value itself (bit-exact, no reinterpretation needed) */
size_t cm_tape_n;  /* records written */
size_t cm_tape_rd; /* records read */

static inline void cm_tape_write_int(size_t size, uint64_t bits) {
#ifndef CM_NATIVE
  __CPROVER_assert(cm_tape_n < CM_TAPE_CAP, "ghost tape capacity (increase CM_TAPE_CAP)");
#endif
  cm_tape_size[cm_tape_n] = (uint8_t)size;
  cm_tape_isf64[cm_tape_n] = 0;
  cm_tape_bits[cm_tape_n] = size >= 8 ? bits : (bits & ((((uint64_t)1) << (8 * size)) - 1));
  cm_tape_n++;
}
static inline void cm_tape_write_f64(size_t size, double v) {
#ifndef CM_NATIVE
  __CPROVER_assert(cm_tape_n < CM_TAPE_CAP, "ghost tape capacity (increase CM_TAPE_CAP)");
#endif
  cm_tape_size[cm_tape_n] = (uint8_t)size;
  cm_tape_isf64[cm_tape_n] = 1;
  cm_tape_f64[cm_tape_n] = v;
  cm_tape_n++;
}

static inline uint64_t cm_tape_read_int(size_t size) {
#ifndef CM_NATIVE
  __CPROVER_assert(cm_tape_rd < cm_tape_n, "restart read past the end of what was written");
  __CPROVER_assert(cm_tape_size[cm_tape_rd] == size, "restart read with a different size than written (mis-framed dump)");
  __CPROVER_assert(!cm_tape_isf64[cm_tape_rd], "restart reads an integer where a double was written (bytes reinterpreted)");
#endif
  return cm_tape_bits[cm_tape_rd++];
}
static inline double cm_tape_read_f64(size_t size) {
#ifndef CM_NATIVE
  __CPROVER_assert(cm_tape_rd < cm_tape_n, "restart read past the end of what was written");
  __CPROVER_assert(cm_tape_size[cm_tape_rd] == size, "restart read with a different size than written (mis-framed dump)");
  __CPROVER_assert(cm_tape_isf64[cm_tape_rd], "restart reads a double where an integer was written (bytes reinterpreted)");
#endif
  return cm_tape_f64[cm_tape_rd++];
}

static inline uint64_t cm_as_u64(uint64_t v) { return v; }
static inline uint64_t cm_f64_as_u64(double v) { return (uint64_t)0; }
static inline double cm_as_f64(double v) { return v; }
static inline double cm_u64_as_f64(uint64_t v) { return 0.; }
#define CM_TAPE_WRITE(e) _Generic((e), double: cm_tape_write_f64(sizeof(e), _Generic((e), double: cm_as_f64, default: cm_u64_as_f64)(e)), \
                                  default: cm_tape_write_int(sizeof(e), _Generic((e), double: cm_f64_as_u64, default: cm_as_u64)(e)))
/* sign extension for signed types narrower than 64 bits happens in the cast to T */
#define CM_TAPE_READ(T) ((T)_Generic((T)0, double: cm_tape_read_f64(sizeof(T)), default: cm_tape_read_int(sizeof(T))))

#endif
