/* Stand-in for std::vector<T*> that keeps what matters for memory safety: the
 * elements live in ONE heap block that push_back() replaces when it is full.
 *
 * TRUSTED (C++ standard, [vector.modifiers]/[vector.capacity]): push_back
 * reallocates iff size() == capacity() beforehand; reallocation moves the
 * elements to a new block and frees the old one, which invalidates every
 * reference, pointer and iterator into the vector; without reallocation they
 * stay valid. operator[] out of range is undefined behaviour (obligation).
 * The capacity on entry is any value >= size (set by the harness).
 * Bounded: at most CM_PVEC_CAP elements (exceeding it is a failed obligation).
 */
#ifndef CM_PVEC_H
#define CM_PVEC_H
#include "cm_prelude.h"
#ifndef CM_PVEC_CAP
#define CM_PVEC_CAP 6
#endif
struct cm_pvec { void **data; size_t size; size_t cap; };
static inline void cm_pvec_push_back(struct cm_pvec *v, void *x) {
#ifndef CM_NATIVE
  __CPROVER_assert(v->size < CM_PVEC_CAP, "pointer-vector stand-in capacity (bound of this unit)");
#endif
  if (v->size == v->cap) {
    const size_t ncap = v->cap + 1; /* growth policy is unspecified; any growth shows the same effects */
    void **nd = (void **)malloc(sizeof(void *) * ncap);
    for (size_t k = 0; k < v->size; ++k) nd[k] = v->data[k];
    free(v->data);
    v->data = nd;
    v->cap = ncap;
  }
  v->data[v->size] = x;
  v->size++;
}
static inline void **cm_pvec_at(struct cm_pvec *v, size_t i) {
#ifndef CM_NATIVE
  __CPROVER_assert(i < v->size, "vector operator[] out of range (undefined behaviour)");
#endif
  return &v->data[i];
}
#endif
