/*******************************************************************************
 * This file is part of CMacIonize
 * Copyright (C) 2018 Bert Vandenbroucke (bert.vandenbroucke@gmail.com)
 *
 * CMacIonize is free software: you can redistribute it and/or modify
 * it under the terms of the GNU Affero General Public License as published by
 * the Free Software Foundation, either version 3 of the License, or
 * (at your option) any later version.
 *
 * CMacIonize is distributed in the hope that it will be useful,
 * but WITOUT ANY WARRANTY; without even the implied warranty of
 * MERCHANTABILITY or FITNESS FOR A PARTICULAR PURPOSE. See the
 * GNU Affero General Public License for more details.
 *
 * You should have received a copy of the GNU Affero General Public License
 * along with CMacIonize. If not, see <http://www.gnu.org/licenses/>.
 ******************************************************************************/

/**
 * @file DeRijckeDataLocation.hpp
 *
 * @brief CMake configured file storing the location of the De Rijcke et al.
 * (2013) cooling tables on the local system.
 *
 * This file should never be edited directly. Instead, edit
 * DeRijckeDataLocation.hpp.in.
 *
 * @author Bert Vandenbroucke (bv7@st-andrews.ac.uk)
 */
#ifndef DERIJCKEDATALOCATION_HPP
#define DERIJCKEDATALOCATION_HPP

#define DERIJCKEDATALOCATION "/repo/_build/data/DeRijckeCooling/"

#endif // DERIJCKEDATALOCATION_HPP
