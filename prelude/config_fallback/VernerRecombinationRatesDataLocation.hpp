/*******************************************************************************
 * This file is part of CMacIonize
 * Copyright (C) 2016 Bert Vandenbroucke (bert.vandenbroucke@gmail.com)
 *
 * CMacIonize is free software: you can redistribute it and/or modify
 * it under the terms of the GNU Affero General Public License as published by
 * the Free Software Foundation, either version 3 of the License, or
 * (at your option) any later version.
 *
 * CMacIonize is distributed in the hope that it will be useful,
 * but WITOUT ANY WARRANTY; without even the implied warranty of
 * MERCHANTABILITY or FITNESS FOR A PARTICULAR PURPOSE. See the
 * GNU Affero General Public License for more details.
 *
 * You should have received a copy of the GNU Affero General Public License
 * along with CMacIonize. If not, see <http://www.gnu.org/licenses/>.
 ******************************************************************************/

/**
 * @file VernerRecombinationRatesDataLocation.hpp
 *
 * @brief CMake configured file storing the location of the recombination rates
 * data file on the local system.
 *
 * This file should never be edited directly. Instead, edit
 * VernerRecombinationRatesDataLocation.hpp.in.
 *
 * @author Bert Vandenbroucke (bv7@st-andrews.ac.uk)
 */
#ifndef VERNERRECOMBINATIONRATESDATALOCATION_HPP
#define VERNERRECOMBINATIONRATESDATALOCATION_HPP

#define VERNERRECOMBINATIONRATESDATALOCATION                                   \
  "/repo/_build/data/verner_rec_data.txt"

#endif // VERNERRECOMBINATIONRATESDATALOCATION_HPP
