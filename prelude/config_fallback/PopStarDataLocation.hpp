/*******************************************************************************
 * This file is part of CMacIonize
 * Copyright (C) 2020 Bert Vandenbroucke (bert.vandenbroucke@gmail.com)
 *
 * CMacIonize is free software: you can redistribute it and/or modify
 * it under the terms of the GNU Affero General Public License as published by
 * the Free Software Foundation, either version 3 of the License, or
 * (at your option) any later version.
 *
 * CMacIonize is distributed in the hope that it will be useful,
 * but WITOUT ANY WARRANTY; without even the implied warranty of
 * MERCHANTABILITY or FITNESS FOR A PARTICULAR PURPOSE. See the
 * GNU Affero General Public License for more details.
 *
 * You should have received a copy of the GNU Affero General Public License
 * along with CMacIonize. If not, see <http://www.gnu.org/licenses/>.
 ******************************************************************************/

/**
 * @file PopStarDataLocation.hpp
 *
 * @brief CMake configured file storing the location of the PopStar stellar
 * models spectra folder on the local system.
 *
 * This file should never be edited directly. Instead, edit
 * PopStarDataLocation.hpp.in.
 *
 * @author Bert Vandenbroucke (bert.vandenbroucke@ugent.be)
 */
#ifndef POPSTARDATALOCATION_HPP
#define POPSTARDATALOCATION_HPP

#define POPSTARDATALOCATION "/repo/_build/data/PopStar/"

#endif // POPSTARDATALOCATION_HPP
