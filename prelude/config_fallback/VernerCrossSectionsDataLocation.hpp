/*******************************************************************************
 * This file is part of CMacIonize
 * Copyright (C) 2016 Bert Vandenbroucke (bert.vandenbroucke@gmail.com)
 *
 * CMacIonize is free software: you can redistribute it and/or modify
 * it under the terms of the GNU Affero General Public License as published by
 * the Free Software Foundation, either version 3 of the License, or
 * (at your option) any later version.
 *
 * CMacIonize is distributed in the hope that it will be useful,
 * but WITOUT ANY WARRANTY; without even the implied warranty of
 * MERCHANTABILITY or FITNESS FOR A PARTICULAR PURPOSE. See the
 * GNU Affero General Public License for more details.
 *
 * You should have received a copy of the GNU Affero General Public License
 * along with CMacIonize. If not, see <http://www.gnu.org/licenses/>.
 ******************************************************************************/

/**
 * @file VernerCrossSectionsDataLocation.hpp
 *
 * @brief CMake configured file storing the location of the cross sections data
 * file on the local system.
 *
 * This file should never be edited directly. Instead, edit
 * VernerCrossSectionsDataLocation.hpp.in.
 *
 * @author Bert Vandenbroucke (bv7@st-andrews.ac.uk)
 */
#ifndef VERNERCROSSSECTIONSDATALOCATION_HPP
#define VERNERCROSSSECTIONSDATALOCATION_HPP

#define VERNERCROSSSECTIONSDATALOCATION_A "/repo/_build/data/verner_A.dat"
#define VERNERCROSSSECTIONSDATALOCATION_B "/repo/_build/data/verner_B.dat"
#define VERNERCROSSSECTIONSDATALOCATION_C "/repo/_build/data/verner_C.dat"

#endif // VERNERCROSSSECTIONSDATALOCATION_HPP
