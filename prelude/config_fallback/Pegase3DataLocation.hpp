/*******************************************************************************
 * This file is part of CMacIonize
 * Copyright (C) 2020 Bert Vandenbroucke (bert.vandenbroucke@gmail.com)
 *
 * CMacIonize is free software: you can redistribute it and/or modify
 * it under the terms of the GNU Affero General Public License as published by
 * the Free Software Foundation, either version 3 of the License, or
 * (at your option) any later version.
 *
 * CMacIonize is distributed in the hope that it will be useful,
 * but WITOUT ANY WARRANTY; without even the implied warranty of
 * MERCHANTABILITY or FITNESS FOR A PARTICULAR PURPOSE. See the
 * GNU Affero General Public License for more details.
 *
 * You should have received a copy of the GNU Affero General Public License
 * along with CMacIonize. If not, see <http://www.gnu.org/licenses/>.
 ******************************************************************************/

/**
 * @file Pegase3DataLocation.hpp
 *
 * @brief CMake configured file storing the location of the Pegase 3 stellar
 * spectrum files on the local system.
 *
 * This file should never be edited directly. Instead, edit
 * Pegase3DataLocation.hpp.in.
 *
 * @author Bert Vandenbroucke (bert.vandenbroucke@ugent.be)
 */
#ifndef PEGASE3DATALOCATION_HPP
#define PEGASE3DATALOCATION_HPP

#define PEGASE3DATALOCATION "/repo/_build/data/Pegase3/"

#endif // PEGASE3DATALOCATION_HPP
