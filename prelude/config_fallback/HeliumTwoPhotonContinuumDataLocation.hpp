/*******************************************************************************
 * This file is part of CMacIonize
 * Copyright (C) 2016 Bert Vandenbroucke (bert.vandenbroucke@gmail.com)
 *
 * CMacIonize is free software: you can redistribute it and/or modify
 * it under the terms of the GNU Affero General Public License as published by
 * the Free Software Foundation, either version 3 of the License, or
 * (at your option) any later version.
 *
 * CMacIonize is distributed in the hope that it will be useful,
 * but WITOUT ANY WARRANTY; without even the implied warranty of
 * MERCHANTABILITY or FITNESS FOR A PARTICULAR PURPOSE. See the
 * GNU Affero General Public License for more details.
 *
 * You should have received a copy of the GNU Affero General Public License
 * along with CMacIonize. If not, see <http://www.gnu.org/licenses/>.
 ******************************************************************************/

/**
 * @file HeliumTwoPhotonContinuumDataLocation.hpp
 *
 * @brief CMake configured file storing the location of the helium 2-photon
 * continuum spectrum data file on the local system.
 *
 * This file should never be edited directly. Instead, edit
 * HeliumTwoPhotonContinuumDataLocation.hpp.in.
 *
 * @author Bert Vandenbroucke (bv7@st-andrews.ac.uk)
 */
#ifndef HELIUMTWOPHOTONCONTINUUMDATALOCATION_HPP
#define HELIUMTWOPHOTONCONTINUUMDATALOCATION_HPP

#define HELIUMTWOPHOTONCONTINUUMDATALOCATION                                   \
  "/repo/_build/data/He2q.dat"

#endif // HELIUMTWOPHOTONCONTINUUMDATALOCATION_HPP
