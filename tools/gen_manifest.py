#!/usr/bin/env python3
"""Regenerate MANIFEST.json from units/*/manifest.json fragments + manifest_base.json."""
import glob
import json
import os

V = os.path.dirname(os.path.dirname(os.path.abspath(__file__)))
base = json.load(open(os.path.join(V, 'manifest_base.json')))
checks = []
claimed = set()
for p in sorted(glob.glob(os.path.join(V, 'units', '*', 'manifest.json'))):
    frag = json.load(open(p))
    pid = frag['property_id']
    claimed.add(pid)
    frag.setdefault('quick_cmd', './bin/check %s --tier quick' % pid)
    frag.setdefault('thorough_cmd', './bin/check %s --tier thorough' % pid)
    frag.setdefault('evidence_file', 'evidence/%s.json' % pid)
    frag.setdefault('replay_cmd_template', './bin/check %s --replay {path}' % pid)
    frag.setdefault('engine', 'cbmc-dfcc')
    checks.append(frag)
base['checks'] = checks
for e in base['engines']:
    e['serves_properties'] = sorted(c['property_id'] for c in checks if c['engine'] == e['name'] or e['name'] in c.get('also_engines', []))
for c in checks:
    c.pop('also_engines', None)
base['not_applicable'] = [n for n in base['not_applicable'] if n['property_id'] not in claimed]
ids = [json.loads(l)['id'] for l in open(os.path.join(V, 'properties.jsonl'))]
missing = [i for i in ids if i not in claimed and i not in [n['property_id'] for n in base['not_applicable']]]
assert not missing, 'properties neither claimed nor not_applicable: %s' % missing
json.dump(base, open(os.path.join(V, 'MANIFEST.json'), 'w'), indent=1)
try:
    import jsonschema
    jsonschema.validate(base, json.load(open('/root/.vp/MANIFEST.schema.json')))
    print('MANIFEST.json valid; claimed:', sorted(claimed))
except ImportError:
    print('MANIFEST.json written (jsonschema not available)')
