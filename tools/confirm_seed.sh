#!/bin/bash
# confirm_seed.sh <id> [suffix]: independently confirm a seeded change delivered by a sub-agent in /tmp/wt_<id>
# (compiles, the 55 pinned tests pass with it, demo fails with it and passes without), then store it under /verif/seeded/<id><suffix>/
set -u
id=$1; sfx=${2:-}; wt=${WT:-/tmp/wt_$id}; out=/verif/seeded/$id$sfx
cd $wt || exit 2
log=$(mktemp /var/tmp/confirm_${id}_XXXX.log)
git diff -- src > /var/tmp/confirm_$id.diff
[ -s /var/tmp/confirm_$id.diff ] || { echo "no change applied in $wt"; exit 2; }
tests=$(tr '\n' ' ' < /var/tmp/prompts/stable_tests.txt)
rx="^($(paste -sd'|' /var/tmp/prompts/stable_tests.txt))\$"
sed -i "s# $wt/.git/HEAD # #" _build/build.ninja
echo "== build with change" | tee -a $log
ninja -C _build -j8 $tests >> $log 2>&1 || { echo "BUILD FAILED with change"; tail -5 $log; exit 1; }
echo "== ctest with change" | tee -a $log
ctest --test-dir _build -j8 --timeout 900 -R "$rx" 2>&1 | tail -4 | tee -a $log
grep -q "100% tests passed, 0 tests failed out of 55" $log || { echo "TESTS DO NOT ALL PASS with change"; exit 1; }
build=$(python3 -c "import json;print(json.load(open('meta_$id.json'))['demo_build_cmd'])")
run=$(python3 -c "import json;print(json.load(open('meta_$id.json'))['demo_run_cmd'])")
echo "== demo with change: $build ; $run" | tee -a $log
( eval "$build" ) >> $log 2>&1 || { echo "demo build failed (changed)"; tail -5 $log; exit 1; }
( eval "$run" ) > /var/tmp/confirm_${id}_changed.out 2>&1; rc_changed=$?
echo "rc(changed)=$rc_changed" | tee -a $log
git stash -q -- src 2>/dev/null || git checkout -- src
( eval "$build" ) >> $log 2>&1 || { echo "demo build failed (unchanged)"; git apply /var/tmp/confirm_$id.diff; exit 1; }
( eval "$run" ) > /var/tmp/confirm_${id}_unchanged.out 2>&1; rc_unchanged=$?
echo "rc(unchanged)=$rc_unchanged" | tee -a $log
git apply /var/tmp/confirm_$id.diff
git stash drop -q 2>/dev/null
if [ $rc_changed -ne 0 ] && [ $rc_unchanged -eq 0 ]; then
  mkdir -p $out
  cp /var/tmp/confirm_$id.diff $out/patch.diff
  cp demo_$id.cpp $out/ 2>/dev/null
  python3 - "$id" "$out" "$rc_changed" "$rc_unchanged" <<'PY'
import json,sys
id,out,rcc,rcu=sys.argv[1:]
m=json.load(open('meta_%s.json'%id))
m['confirmed_by_main_session']={'tests_with_change':'55/55 pinned tests pass (ninja + ctest -R stable list)','demo_rc_changed':int(rcc),'demo_rc_unchanged':int(rcu),
  'demo_output_changed_tail':open('/var/tmp/confirm_%s_changed.out'%id,errors='replace').read()[-1500:]}
json.dump(m,open(out+'/meta.json','w'),indent=1)
PY
  echo "CONFIRMED -> $out"
else
  echo "NOT CONFIRMED (rc changed=$rc_changed unchanged=$rc_unchanged)"; exit 1
fi
