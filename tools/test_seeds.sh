#!/bin/bash
# tools/test_seeds.sh [seed ...]: apply each seeded change to /repo, run the check(s) that should see it with the
# evidence redirected, undo the change, and record the outcome in seeded/RESULTS.txt
cd "$(dirname "$0")/.."
export VERIF_EVIDENCE_DIR=/var/tmp/verif_seed_evidence
mkdir -p $VERIF_EVIDENCE_DIR
declare -A CHECKS=( [C01]="C01" [C02]="C02" [C03]="C03" [C04]="C04" [C06]="C06" [C07]="C07" [C08]="C08" [C09]="C09" [C12]="C12" [C13]="C13" [C14]="C14" [C18]="C18" [C19]="C19" )
seeds=${@:-$(ls seeded | grep -v RESULTS)}
git -C /repo diff --quiet || { echo "/repo has local modifications"; exit 2; }
for s in $seeds; do
  [ -f seeded/$s/patch.diff ] || continue
  git -C /repo apply $PWD/seeded/$s/patch.diff || { echo "$s: patch does not apply"; continue; }
  for c in ${CHECKS[$s]}; do
    [ -d units/$c ] || { echo "$s: no unit $c"; continue; }
    out=$(./bin/check $c 2>/dev/null | grep -E "^(VIOLATION|OK|UNDECIDED|KNOWN)" | head -3 | tr '\n' ' ')
    echo "seed=$s check=$c -> $out" | tee -a /var/tmp/seed_results.txt
  done
  git -C /repo checkout -- .
done
