#!/usr/bin/env python3
"""cxx2c -- mechanical extraction of C++ member/free functions of /repo to C.

The verified text is produced on every run from /repo's working tree; this
module is the only place where C++ text is rewritten.  It is a token-aware
rewriter (comments blanked, string literals skipped when matching brackets),
not a C++ parser.  Everything it cannot do raises ExtractionError, which the
runner turns into exit status 2 ("extraction broke"), never into a violation.

A unit template (units/<id>/unit.c.in) is ordinary C with directives:

  //@@ members file=<rel> class=<K> [mode=globals|struct] [only=a,b] [skip=a,b] [static=1]
  //@@ function file=<rel> [class=<K>] name=<n> cname=<c> [nparams=N] [kind=method|ctor|dtor|free]
  //@      [self=1] [occurrence=N] [params=<regex on the parameter text>]
  //@ rewrite <python regex> ==> <replacement> [@min=N]
  //@ callmap <name>=<cname>[,...]
  //@ contract
  <payload lines: CBMC contract clauses>
  //@ loop <ordinal>
  <payload lines: loop contract clauses>
  //@ inject before|after <python regex>
  <payload lines: C statements>
  //@ prologue
  <payload lines: C statements put at the very start of the body>
  //@@ end
  //@@ region file=<rel> cname=<c> begin=<regex> [occurrence=N] sig=<C signature>
  //@@ typedef file=<rel> name=<n>      ('typedef union|struct {...} n;' copied verbatim)
  ... (same sub-directives) -- extracts the brace block that starts at the
      first '{' after the match of begin (or the statement for loops)
  //@@ job ... (parsed by the runner, ignored here)

All other lines are copied verbatim.
"""
import hashlib
import json
import os
import re
import sys


class ExtractionError(Exception):
    pass


# --------------------------------------------------------------------------
# lexical helpers


def blank_comments(text):
    """Replace comments by spaces (newlines kept) so that offsets and line
    numbers are unchanged.  String/char literals are left in place."""
    out = []
    i = 0
    n = len(text)
    while i < n:
        c = text[i]
        if c == '/' and i + 1 < n and text[i + 1] == '/':
            j = text.find('\n', i)
            if j < 0:
                j = n
            out.append(' ' * (j - i))
            i = j
        elif c == '/' and i + 1 < n and text[i + 1] == '*':
            j = text.find('*/', i + 2)
            if j < 0:
                raise ExtractionError('unterminated comment')
            j += 2
            out.append(''.join(ch if ch == '\n' else ' ' for ch in text[i:j]))
            i = j
        elif c == '"' or c == "'":
            j = skip_literal(text, i)
            out.append(text[i:j])
            i = j
        else:
            out.append(c)
            i += 1
    return ''.join(out)


def skip_literal(text, i):
    q = text[i]
    j = i + 1
    n = len(text)
    while j < n:
        if text[j] == '\\':
            j += 2
            continue
        if text[j] == q:
            return j + 1
        if text[j] == '\n' and q == "'":
            # a lone apostrophe (digit separator etc.) -- treat as ordinary char
            return i + 1
        j += 1
    raise ExtractionError('unterminated literal')


OPEN = {'(': ')', '{': '}', '[': ']'}


def match_bracket(text, i):
    """text[i] is an opening bracket; return index of its partner."""
    stack = [OPEN[text[i]]]
    j = i + 1
    n = len(text)
    while j < n:
        c = text[j]
        if c == '"' or c == "'":
            j = skip_literal(text, j)
            continue
        if c in OPEN:
            stack.append(OPEN[c])
        elif c in ')}]':
            if c != stack[-1]:
                raise ExtractionError('bracket mismatch at offset %d' % j)
            stack.pop()
            if not stack:
                return j
        j += 1
    raise ExtractionError('unbalanced bracket at offset %d' % i)


def split_top(text, sep=','):
    """split at top-level separators (not inside brackets/angle brackets)."""
    parts = []
    depth = 0
    adepth = 0
    cur = []
    i = 0
    while i < len(text):
        c = text[i]
        if c == '"' or c == "'":
            j = skip_literal(text, i)
            cur.append(text[i:j])
            i = j
            continue
        if c in '({[':
            depth += 1
        elif c in ')}]':
            depth -= 1
        elif c == '<':
            adepth += 1
        elif c == '>' and adepth > 0:
            adepth -= 1
        if c == sep and depth == 0 and adepth == 0:
            parts.append(''.join(cur))
            cur = []
        else:
            cur.append(c)
        i += 1
    if ''.join(cur).strip() or parts:
        parts.append(''.join(cur))
    return parts


def line_of(text, off):
    return text.count('\n', 0, off) + 1


# --------------------------------------------------------------------------
# global lowering rules: (name, regex, replacement)
# Each application records a hit count in the report.

TYPE_WORD = r'(?:unsigned\s+char|unsigned\s+int|unsigned\s+long|unsigned\s+short|[A-Za-z_][\w]*)'

GLOBAL_RULES = [
    ('static_cast', re.compile(r'\bstatic_cast\s*<\s*([^<>]+?)\s*>\s*\('), r'(\1)('),
    ('reinterpret_cast', re.compile(r'\breinterpret_cast\s*<\s*([^<>]+?)\s*>\s*\('), r'(\1)('),
    ('std_min_T', re.compile(r'\bstd::min\s*<\s*([^<>]+?)\s*>\s*\('), r'CM_MIN_T(\1, '),
    ('std_max_T', re.compile(r'\bstd::max\s*<\s*([^<>]+?)\s*>\s*\('), r'CM_MAX_T(\1, '),
    ('std_min', re.compile(r'\bstd::min\s*\('), r'CM_MIN('),
    ('std_max', re.compile(r'\bstd::max\s*\('), r'CM_MAX('),
    ('std_abs', re.compile(r'\bstd::abs\s*\('), r'CM_ABS('),
    ('std_sqrt', re.compile(r'\bstd::sqrt\s*\('), r'cm_sqrt('),
    ('std_isinf', re.compile(r'\bstd::isinf\s*\('), r'__builtin_isinf('),
    ('std_isnan', re.compile(r'\bstd::isnan\s*\('), r'__builtin_isnan('),
    ('std_ints', re.compile(r'\bstd::((?:u?int(?:_fast|_least)?(?:8|16|32|64)_t)|size_t)\b'), r'\1'),
    ('nullptr', re.compile(r'\bnullptr\b'), r'NULL'),
    ('delete_array', re.compile(r'\bdelete\s*\[\s*\]\s*([^;]+);'), r'CM_DELETE_ARRAY(\1);'),
    ('delete', re.compile(r'\bdelete\s+([^;\[]+);'), r'CM_DELETE(\1);'),
    ('new_array', re.compile(r'\bnew\s+([\w:]+(?:\s*<[^<>;]*>)?(?:\s*\*)*)\s*\[([^\]]+)\]'), r'CM_NEW_ARRAY(\1, \2)'),
    ('coordinatevector_type', re.compile(r'\bCoordinateVector\s*<\s*(\w+)\s*>'), r'struct cm_cv_\1'),
    ('coordinatevector_default_type', re.compile(r'\bCoordinateVector\s*<\s*>'), r'struct cm_cv_double'),
    ('coordinatevector_xyz', re.compile(r'\.\s*([xyz])\s*\(\s*\)'), lambda m: '.c[%d]' % 'xyz'.index(m.group(1))),
    ('string_map_type', re.compile(r'\bstd::map\s*<\s*std::string\s*,\s*std::string\s*>'), r'cm_map_token'),
    ('restart_write', re.compile(r'(?:\(\*restart_writer\)|\brestart_writer)\s*\.\s*write\s*\('), r'CM_TAPE_WRITE('),
    ('restart_read', re.compile(r'(?:\(\*restart_reader\)|\brestart_reader)\s*\.\s*read\s*<\s*([^<>]+?)\s*>\s*\(\s*\)'), r'CM_TAPE_READ(\1)'),
    ('functional_cast', re.compile(r'(?<![\w>.])(double|float|int|unsigned int|uint_fast32_t|int_fast32_t|uint_fast64_t|uint64_t|uint32_t|int32_t|size_t|uint_fast8_t|int_fast8_t|uint_least8_t|int_least8_t|uint_fast16_t|int_fast16_t|bool|char)\s*\((?!\s*\))(?=[^;{}]*\))'), None),
    ('const_local', re.compile(r'\bconstexpr\b'), r'const'),
]

# macro-like statements removed completely (statement = up to matching ')' + ';')
DROP_CALLS = ['cmac_warning', 'cmac_status', 'cpucycle_tick']
ASSERT_CALLS = ['cmac_assert', 'cmac_assert_message']


def _replace_calls(body, name, fn, report, key):
    """Replace every 'name(args)[;]' where fn(args_text, full_text) -> str."""
    out = []
    pos = 0
    count = 0
    pat = re.compile(r'\b' + re.escape(name) + r'\s*\(')
    while True:
        m = pat.search(body, pos)
        if not m:
            break
        # not a member call on something else, not part of a longer identifier
        lp = m.end() - 1
        rp = match_bracket(body, lp)
        end = rp + 1
        k = end
        while k < len(body) and body[k] in ' \t\n':
            k += 1
        has_semi = k < len(body) and body[k] == ';'
        rep = fn(body[lp + 1:rp])
        out.append(body[pos:m.start()])
        out.append(rep)
        # keep newlines so that line numbers survive
        dropped = body[m.start():(k + 1) if has_semi else end]
        out.append('\n' * dropped.count('\n'))
        pos = (k + 1) if has_semi else end
        count += 1
    out.append(body[pos:])
    if count:
        report['rules'][key] = report['rules'].get(key, 0) + count
    return ''.join(out)


def _replace_new(body, report):
    """new T(args) -> CM_NEW_T(args)   (T_new is provided by the unit: extracted ctor or stand-in)"""
    out = []
    pos = 0
    count = 0
    pat = re.compile(r'\bnew\s+([A-Za-z_]\w*)\s*\(')
    while True:
        m = pat.search(body, pos)
        if not m:
            break
        lp = m.end() - 1
        rp = match_bracket(body, lp)
        out.append(body[pos:m.start()])
        out.append('CM_NEW_%s(%s)' % (m.group(1), body[lp + 1:rp]))
        pos = rp + 1
        count += 1
    out.append(body[pos:])
    if count:
        report['rules']['new_T(args)->CM_NEW_T(args)'] = report['rules'].get('new_T(args)->CM_NEW_T(args)', 0) + count
    return ''.join(out)


def lower_types(text):
    text = re.sub(r'\bstd::', '', text)
    text = re.sub(r'\bCoordinateVector\s*<\s*(\w+)\s*>', r'struct cm_cv_\1', text)
    text = re.sub(r'\bCoordinateVector\s*<\s*>', r'struct cm_cv_double', text)
    return text


def apply_global_rules(body, report, promote_asserts=False, relfile='', base_line=0):
    rules = report['rules']
    # error / warning / assert macros
    def err(args):
        return 'CM_ERROR();'
    body = _replace_calls(body, 'cmac_error', err, report, 'cmac_error->CM_ERROR')
    for nm in DROP_CALLS:
        body = _replace_calls(body, nm, lambda a: '', report, nm + '->dropped')
    for nm in ASSERT_CALLS:
        if promote_asserts:
            def asrt(args):
                cond = split_top(args)[0]
                return 'CM_PROMOTED_ASSERT(%s);' % cond.strip()
            body = _replace_calls(body, nm, asrt, report, nm + '->promoted')
        else:
            body = _replace_calls(body, nm, lambda a: '', report, nm + '->dropped(compiled out in pinned build)')
    body = _replace_new(body, report)
    for name, pat, rep in GLOBAL_RULES:
        if name == 'functional_cast':
            # T(expr) -> ((T)(expr)); only when preceded by an operator/paren/comma/'='/return
            def fc(m):
                return '(' + m.group(1) + ')('
            new, k = re.subn(r'(?<=[=(,+\-*/<>!&|?:\s])(?<![\w>.])(double|float|int|uint_fast32_t|int_fast32_t|uint_fast64_t|uint64_t|uint32_t|int32_t|size_t|uint_fast8_t|int_fast8_t|int_least8_t|uint_least8_t|uint_fast16_t|int_fast16_t|bool|char)\s*\((?!\s*\))', fc, body)
            # do not touch declarations like "double (x)" - they do not occur in this code base
        else:
            new, k = pat.subn(rep, body)
        if k:
            rules[name] = rules.get(name, 0) + k
        body = new
    # pragma omp lines
    new, k = re.subn(r'^[ \t]*#pragma omp[^\n]*', '', body, flags=re.M)
    if k:
        rules['pragma_omp->dropped'] = rules.get('pragma_omp->dropped', 0) + k
    body = new
    return body


# --------------------------------------------------------------------------
# locating things in a source file


_CONFIG_CACHE = {}


def config_defines(repo):
    if repo in _CONFIG_CACHE:
        return _CONFIG_CACHE[repo]
    here = os.path.dirname(os.path.abspath(__file__))
    cands = [os.path.join(repo, '_build', 'src', 'Configuration.hpp'),
             os.path.join(here, '..', 'prelude', 'config_fallback', 'Configuration.hpp')]
    defs = set()
    for c in cands:
        if os.path.exists(c):
            txt = blank_comments(open(c, errors='replace').read())
            for m in re.finditer(r'^[ \t]*#[ \t]*define[ \t]+(\w+)', txt, flags=re.M):
                defs.add(m.group(1))
            break
    defs.discard('CONFIGURATION_HPP')
    _CONFIG_CACHE[repo] = defs
    return defs


COND_RE = re.compile(r'^[ \t]*#[ \t]*(ifdef|ifndef|if|elif|else|endif|define|undef|include)\b(.*)$')


def resolve_conditionals(text, defines, include_cb=None):
    """Blank the inactive branches of #if/#ifdef/#elif/#else/#endif (newlines kept)
    for conditions of the form defined(X) / !defined(X) / X-is-defined. Conditions that
    cannot be decided are left in place (both branches kept, directive lines kept) -
    the extractor refuses a function body that still contains a directive.
    defines is updated by active #define lines (sequentially, like the preprocessor)."""
    out = []
    stack = []  # entries: [parent_active, taken, active, known]
    def cur_active():
        return all(e[2] for e in stack)
    def evalc(expr):
        e = expr.strip()
        m = re.match(r'^defined\s*\(\s*(\w+)\s*\)$', e) or re.match(r'^defined\s+(\w+)$', e)
        if m:
            return m.group(1) in defines
        m = re.match(r'^!\s*defined\s*\(\s*(\w+)\s*\)$', e)
        if m:
            return m.group(1) not in defines
        if e in ('0', '1'):
            return e == '1'
        return None
    lines = text.split('\n')
    i = 0
    while i < len(lines):
        ln = lines[i]
        m = COND_RE.match(ln)
        if not m:
            out.append(ln if cur_active() else '')
            i += 1
            continue
        kw, rest = m.group(1), m.group(2)
        # continuation lines of a directive
        full = ln
        n_extra = 0
        while full.rstrip().endswith('\\') and i + 1 + n_extra < len(lines):
            n_extra += 1
            full = full + '\n' + lines[i + n_extra]
        if kw in ('ifdef', 'ifndef', 'if'):
            if kw == 'ifdef':
                v = rest.strip() in defines
            elif kw == 'ifndef':
                v = rest.strip() not in defines
            else:
                v = evalc(rest)
            if v is None:
                stack.append([cur_active(), True, True, False])
                out.append(ln if cur_active() else '')
            else:
                stack.append([cur_active(), v, v, True])
                out.append('')
        elif kw == 'elif':
            e = stack[-1]
            if not e[3]:
                out.append(ln if cur_active() else '')
            else:
                v = evalc(rest)
                if v is None:
                    raise ExtractionError('cannot decide #elif %s' % rest.strip())
                e[2] = (not e[1]) and v
                e[1] = e[1] or v
                out.append('')
        elif kw == 'else':
            e = stack[-1]
            if not e[3]:
                out.append(ln if cur_active() else '')
            else:
                e[2] = not e[1]
                e[1] = True
                out.append('')
        elif kw == 'endif':
            e = stack.pop()
            out.append('' if e[3] else (ln if cur_active() else ''))
        elif kw == 'define':
            if cur_active():
                mm = re.match(r'\s*(\w+)', rest)
                if mm:
                    defines.add(mm.group(1))
                out.append(ln)
            else:
                out.append('')
        elif kw == 'include':
            # local headers contribute their #defines (e.g. SAFE_HYDRO_VARIABLES from Hydro.hpp)
            mm = re.match(r'\s*"([^"]+)"', rest)
            if cur_active() and mm and include_cb is not None:
                include_cb(mm.group(1), defines)
            out.append(ln if cur_active() else '')
        elif kw == 'undef':
            if cur_active():
                defines.discard(rest.strip())
                out.append(ln)
            else:
                out.append('')
        for k in range(n_extra):
            out.append(lines[i + 1 + k] if (cur_active() and kw in ('define',)) else '')
        i += 1 + n_extra
    return '\n'.join(out)


class Source:
    def __init__(self, repo, rel):
        self.rel = rel
        self.path = os.path.join(repo, rel)
        if not os.path.exists(self.path):
            raise ExtractionError('missing source file %s' % rel)
        with open(self.path, encoding='utf-8', errors='replace') as f:
            self.raw = f.read()
        self.text = blank_comments(self.raw)
        # conditional compilation: resolved with the pinned build's Configuration.hpp
        # and the #defines of the file itself
        defines = set(config_defines(repo))
        srcdir = os.path.dirname(self.path)
        visiting = set([os.path.abspath(self.path)])

        def include_cb(name, defs):
            path = os.path.abspath(os.path.join(srcdir, name))
            if path in visiting or not os.path.exists(path):
                return
            visiting.add(path)
            try:
                with open(path, encoding='utf-8', errors='replace') as f:
                    t = blank_comments(f.read())
                resolve_conditionals(t, defs, include_cb)
            except ExtractionError:
                pass

        self.text = resolve_conditionals(self.text, defines, include_cb)
        self.defines = defines

    def class_span(self, cls):
        m = None
        for mm in re.finditer(r'\b(?:class|struct)\s+' + re.escape(cls) + r'\b[^;{]*\{', self.text):
            if m is not None:
                raise ExtractionError('class %s defined twice in %s' % (cls, self.rel))
            m = mm
        if m is None:
            raise ExtractionError('class %s not found in %s' % (cls, self.rel))
        lb = m.end() - 1
        rb = match_bracket(self.text, lb)
        return lb, rb


def find_definitions(src, name, cls=None, kind='method'):
    """Return list of dicts for every *definition* (has a body) of name."""
    text = src.text
    lo, hi = 0, len(text)
    in_class = False
    if cls and kind != 'free':
        # in-class definitions
        try:
            lb, rb = src.class_span(cls)
            lo, hi = lb + 1, rb
            in_class = True
        except ExtractionError:
            in_class = False
    found = []

    def scan(lo, hi, qualified):
        if kind == 'dtor':
            pat = re.compile((re.escape(cls) + r'::' if qualified else r'') + r'~' + re.escape(name) + r'\s*\(')
        elif qualified:
            pat = re.compile(r'\b' + re.escape(cls) + r'::' + re.escape(name) + r'\s*\(')
        else:
            pat = re.compile(r'(?<![\w:~.>])' + re.escape(name) + r'\s*\(')
        skip_until = -1
        for m in pat.finditer(text, lo, hi):
            if m.start() < skip_until:
                continue  # inside a definition already recorded (e.g. a delegating ctor call)
            if not qualified and in_class:
                # must be at class depth 1: count braces between lo and m.start()
                seg = text[lo:m.start()]
                if _depth(seg) != 0:
                    continue
            lp = m.end() - 1
            try:
                rp = match_bracket(text, lp)
            except ExtractionError:
                continue
            k = rp + 1
            # qualifiers
            while True:
                mm = re.compile(r'\s*(const|override|noexcept|final)\b').match(text, k)
                if mm:
                    k = mm.end()
                else:
                    break
            mm = re.compile(r'\s*').match(text, k)
            k = mm.end()
            init = None
            if k < len(text) and text[k] == ':' and text[k:k + 2] != '::':
                # ctor initialiser list: scan to the body '{' at depth 0
                j = k + 1
                init_start = j
                while True:
                    mm = re.compile(r'\s*[\w:<>, ]+?\s*([({])').match(text, j)
                    if not mm:
                        raise ExtractionError('cannot parse ctor initialiser of %s' % name)
                    ob = mm.end() - 1
                    cb = match_bracket(text, ob)
                    j = cb + 1
                    mm2 = re.compile(r'\s*,').match(text, j)
                    if mm2:
                        j = mm2.end()
                        continue
                    break
                init = text[init_start:j]
                mm = re.compile(r'\s*').match(text, j)
                k = mm.end()
            if k >= len(text) or text[k] != '{':
                continue  # declaration only
            be = match_bracket(text, k)
            # return type: text back to previous boundary
            s = m.start()
            b = s
            while b > 0 and text[b - 1] not in ';{}':
                b -= 1
            head = text[b:s]
            # strip access specifiers / template headers
            head = re.sub(r'\b(public|private|protected)\s*:', ' ', head)
            head = re.sub(r'\btemplate\s*<[^{};]*?>\s*(?=\w)', ' ', head)
            head = re.sub(r'#[^\n]*', ' ', head)
            found.append(dict(start=b, name_off=s, lp=lp, rp=rp, body_lb=k, body_rb=be,
                              head=head, params=text[lp + 1:rp], init=init))
            skip_until = be

    if in_class:
        scan(lo, hi, False)
    if cls and kind != 'free':
        scan(0, len(text), True)
    if not cls or kind == 'free':
        scan(0, len(text), False)
    return found


def _depth(seg):
    d = 0
    i = 0
    while i < len(seg):
        c = seg[i]
        if c == '"' or c == "'":
            try:
                i = skip_literal(seg, i)
            except ExtractionError:
                i += 1
            continue
        if c == '{':
            d += 1
        elif c == '}':
            d -= 1
        i += 1
    return d


# --------------------------------------------------------------------------
# parameters


def lower_params(params, report):
    """Return (C parameter text, list of reference parameter names)."""
    refs = []
    out = []
    for p in split_top(params):
        p = p.strip()
        if not p or p == 'void':
            continue
        # drop default value
        q = split_top(p, '=')
        if len(q) > 1:
            p = q[0].strip()
            report['rules']['default_argument->dropped'] = report['rules'].get('default_argument->dropped', 0) + 1
        m = re.match(r'^(.*?)(&)\s*(\w+)$', p, re.S)
        if m:
            ty = m.group(1).strip()
            nm = m.group(3)
            refs.append(nm)
            out.append('%s *%s' % (ty, nm))
            report['rules']['reference_param->pointer'] = report['rules'].get('reference_param->pointer', 0) + 1
        else:
            out.append(re.sub(r'\s+', ' ', p))
    return ', '.join(out), refs


def lower_ctor_init(init, report):
    """': a(x), b{y, z}' -> 'a = x; b[0] = y; b[1] = z;'"""
    stmts = []
    for item in split_top(init):
        item = item.strip()
        if not item:
            continue
        m = re.match(r'^([\w:<> ]+?)\s*([({])', item)
        if not m:
            raise ExtractionError('ctor initialiser item not understood: %s' % item)
        nm = m.group(1).strip()
        ob = m.end() - 1
        cb = match_bracket(item, ob)
        args = item[ob + 1:cb]
        if item[ob] == '{':
            elems = split_top(args)
            if len(elems) > 1:
                for i, e in enumerate(elems):
                    stmts.append('%s[%d] = %s;' % (nm, i, e.strip()))
            else:
                stmts.append('%s = %s;' % (nm, args.strip()))
        else:
            stmts.append('CM_INIT(%s, %s);' % (nm, args.strip()))
        report['rules']['ctor_initialiser->assignment'] = report['rules'].get('ctor_initialiser->assignment', 0) + 1
    return ' '.join(stmts)


# --------------------------------------------------------------------------
# loops and injections


LOOP_RE = re.compile(r'\b(while|for|do)\b')


def find_loops(body):
    """Return list of (ordinal, insert_offset) in textual order; insert_offset
    is where loop-contract clauses go (after the ')' of while/for; for do-while
    after the ')' of the trailing while)."""
    res = []
    i = 0
    pend_do = []  # stack of do-blocks awaiting their while
    skip_while_at = set()
    order = []
    while True:
        m = LOOP_RE.search(body, i)
        if not m:
            break
        # skip literals region: crude check -- is m inside a string? count quotes on line
        kw = m.group(1)
        i = m.end()
        if _in_literal(body, m.start()):
            continue
        if kw == 'do':
            mm = re.compile(r'\s*\{').match(body, m.end())
            if not mm:
                continue
            cb = match_bracket(body, mm.end() - 1)
            mw = re.compile(r'\s*while\s*\(').match(body, cb + 1)
            if not mw:
                raise ExtractionError('do without while')
            rp = match_bracket(body, mw.end() - 1)
            skip_while_at.add(mw.end() - 1)
            order.append((m.start(), rp + 1))
        else:
            mm = re.compile(r'\s*\(').match(body, m.end())
            if not mm:
                continue
            lp = mm.end() - 1
            if lp in skip_while_at:
                continue
            rp = match_bracket(body, lp)
            order.append((m.start(), rp + 1))
    order.sort()
    return [(k + 1, off) for k, (_, off) in enumerate(order)]


def _in_literal(text, off):
    ls = text.rfind('\n', 0, off) + 1
    seg = text[ls:off]
    return seg.count('"') % 2 == 1


# --------------------------------------------------------------------------
# template processing



def havoc_opaque_statements(inner, ty, member_vars, method_is_const, rep):
    """opaque=<type>: values of <type> are identity tokens. Top-level statements that use such a value in any way
    other than copy-initialising another one or handing it to the restart tape may change it in ways the token
    abstraction cannot follow: each is replaced by a havoc of every token variable it mentions (locals always,
    members unless the method is const). Over-approximation: a proof that passes is sound; a failure must be
    confirmed natively (job attribute confirm=native) before it is reported."""
    text = re.sub(r'/\*.*?\*/', lambda m: re.sub(r'[^\n]', ' ', m.group(0)), inner, flags=re.S)
    text = re.sub(r'//[^\n]*', lambda m: ' ' * len(m.group(0)), text)
    out = []
    pos = 0
    n = len(text)
    locals_ = []
    count = 0
    while pos < n:
        m = re.compile(r'\s*').match(text, pos)
        out.append(inner[pos:m.end()])
        pos = m.end()
        if pos >= n:
            break
        start = pos
        kw = re.compile(r'(for|while|if|switch)\b').match(text, pos)
        if kw:
            lp = text.index('(', pos)
            rp = match_bracket(text, lp)
            k = rp + 1
            while True:
                mm = re.compile(r'\s*').match(text, k)
                k = mm.end()
                if k < n and text[k] == '{':
                    k = match_bracket(text, k) + 1
                else:
                    k = text.index(';', k) + 1
                me = re.compile(r'\s*else\b\s*(if\s*)?').match(text, k)
                if kw.group(1) == 'if' and me:
                    k = me.end()
                    if me.group(1):
                        k = match_bracket(text, text.index('(', k - 1 if text[k - 1] == '(' else k)) + 1
                    continue
                break
            end = k
        elif text[pos] == '{':
            end = match_bracket(text, pos) + 1
        else:
            depth = 0
            k = pos
            while k < n:
                c = text[k]
                if c in '({[':
                    depth += 1
                elif c in ')}]':
                    depth -= 1
                elif c == ';' and depth == 0:
                    break
                k += 1
            end = min(k + 1, n)
        st = text[start:end]
        raw = inner[start:end]
        pos = end
        md = re.match(r'^(?:const\s+)?' + re.escape(ty) + r'\s+(\w+)\s*(?:=\s*(\w+)|\(\s*(\w+)\s*\))?\s*;$', st.strip(), re.S)
        if md:
            locals_.append(md.group(1))
            src_ = md.group(2) or md.group(3)
            out.append('%s %s%s;%s' % (ty, md.group(1), (' = ' + src_) if src_ else '', '\n' * raw.count('\n')))
            continue
        allv = locals_ + list(member_vars)
        used = [v for v in allv if re.search(r'(?<![\w.>])' + re.escape(v) + r'\b', st)]
        if not used or re.match(r'^CM_TAPE_WRITE\(\s*\w+\s*\);$', st.strip()) or re.match(r'^return\b', st.strip()):
            out.append(raw)
            continue
        targets = [v for v in used if v in locals_ or not method_is_const]
        count += 1
        out.append('{ /* opaque %s used by a statement the token abstraction cannot follow: havoc */ %s }%s' % (
            ty, ' '.join('%s = cm_opaque_havoc();' % v for v in targets), '\n' * raw.count('\n')))
    rep['rules']['opaque_statement->havoc'] = count
    return ''.join(out)


class Block:
    def __init__(self, kind, attrs, lineno):
        self.kind = kind
        self.attrs = attrs
        self.lineno = lineno
        self.rewrites = []   # (regex, repl, min)
        self.callmap = {}
        self.inlines = []
        self.sigrewrites = []
        self.contract = []
        self.loops = {}      # ordinal -> lines
        self.loop_lines = {}
        self.contract_line = 0
        self.injects = []    # (where, regex, lines)
        self.prologue = []
        self.epilogue = []


def parse_attrs(s):
    attrs = {}
    # sig=... and begin=... may contain spaces: they take the rest up to the next ' key=' token
    toks = re.split(r'\s+(?=[a-z_]+=)', s.strip())
    for t in toks:
        if not t:
            continue
        if '=' not in t:
            raise ExtractionError('bad attribute %r' % t)
        k, v = t.split('=', 1)
        attrs[k] = v
    return attrs


def parse_template(text):
    """Yield items: ('text', str) | ('block', Block) | ('job', attrs)."""
    items = []
    lines = text.split('\n')
    i = 0
    cur = None
    payload = None
    while i < len(lines):
        ln = lines[i]
        s = ln.strip()
        if s.startswith('//@@'):
            d = s[4:].strip()
            word = d.split(None, 1)[0] if d else ''
            rest = d[len(word):].strip()
            if word == 'define':
                items.append(('define', parse_attrs(rest)))
            elif word == 'enumval':
                items.append(('enumval', parse_attrs(rest)))
            elif word == 'typedef':
                items.append(('typedef', parse_attrs(rest)))
            elif word == 'tablevalue':
                items.append(('tablevalue', parse_attrs(rest)))
            elif word == 'expect':
                items.append(('expect', parse_attrs(rest)))
            elif word == 'restartorder':
                items.append(('restartorder', parse_attrs(rest)))
            elif word in ('function', 'region', 'members'):
                if cur is not None:
                    raise ExtractionError('template line %d: nested block' % (i + 1))
                cur = Block(word, parse_attrs(rest), i + 1)
                payload = None
                if word == 'members':
                    items.append(('block', cur))
                    cur = None
            elif word == 'end':
                if cur is None:
                    raise ExtractionError('template line %d: end without block' % (i + 1))
                cur.end_line = i + 1
                items.append(('block', cur))
                cur = None
                payload = None
            elif word == 'job':
                items.append(('job', parse_attrs(rest)))
            else:
                raise ExtractionError('template line %d: unknown directive %s' % (i + 1, word))
        elif s.startswith('//@') and cur is not None:
            d = s[3:].strip()
            word = d.split(None, 1)[0] if d else ''
            rest = d[len(word):].strip()
            if word == 'rewrite':
                mn = 1
                mm = re.search(r'\s@min=(\d+)\s*$', rest)
                if mm:
                    mn = int(mm.group(1))
                    rest = rest[:mm.start()]
                if ' ==> ' not in rest + ' ':
                    raise ExtractionError('template line %d: rewrite needs ==>' % (i + 1))
                a, b = (rest + ' ').split(' ==> ', 1)
                cur.rewrites.append((a.strip(), b.strip(), mn))
                payload = None
            elif word == 'sigrewrite':
                a_, b_ = (rest + ' ').split(' ==> ', 1)
                cur.sigrewrites.append((a_.strip(), b_.strip()))
                payload = None
            elif word == 'callmap':
                for kv in rest.split(','):
                    k, v = kv.strip().split('=')
                    cur.callmap[k] = v
                payload = None
            elif word == 'inline':
                # inline <name>[@file[@class]],...
                for it in rest.split(','):
                    cur.inlines.append(it.strip())
                payload = None
            elif word == 'contract':
                payload = cur.contract
                cur.contract_line = i + 2
            elif word == 'loop':
                payload = cur.loops.setdefault(int(rest), [])
                cur.loop_lines[int(rest)] = i + 2
            elif word == 'inject':
                where, rx = rest.split(None, 1)
                lst = []
                cur.injects.append((where, rx, lst, i + 2))
                payload = lst
            elif word == 'prologue':
                payload = cur.prologue
            elif word == 'epilogue':
                payload = cur.epilogue
            else:
                raise ExtractionError('template line %d: unknown sub-directive %s' % (i + 1, word))
        else:
            if cur is not None:
                if payload is None:
                    if s:
                        raise ExtractionError('template line %d: stray text in block' % (i + 1))
                else:
                    payload.append(ln)
            else:
                items.append(('text', ln))
        i += 1
    if cur is not None:
        raise ExtractionError('unterminated block starting at template line %d' % cur.lineno)
    return items


MEMBER_RE = re.compile(
    r'^\s*(?P<static>static\s+)?(?P<type>(?:const\s+)?[\w:]+(?:\s*<[^;{}()]*>)?(?:\s+[\w:]+)*?)\s*(?P<ptr>[\*&]*)\s*(?P<name>_\w+)\s*(?P<arr>(?:\[[^\]]*\])*)\s*(?:=\s*[^;]+)?;', re.S)


def extract_members(src, cls):
    lb, rb = src.class_span(cls)
    text = src.text
    members = []
    # walk statements at depth 1
    i = lb + 1
    stmt_start = i
    while i < rb:
        c = text[i]
        if c == '"' or c == "'":
            i = skip_literal(text, i)
            continue
        if c == '{':
            i = match_bracket(text, i) + 1
            # a function body or nested type: statement ends here (maybe followed by ';')
            mm = re.compile(r'\s*;').match(text, i)
            if mm:
                i = mm.end()
            stmt_start = i
            continue
        if c == '(':
            i = match_bracket(text, i) + 1
            continue
        if c == ';':
            stmt = text[stmt_start:i + 1]
            stmt = re.sub(r'\b(public|private|protected)\s*:', ' ', stmt)
            stmt = re.sub(r'#[^\n]*', ' ', stmt)
            if '(' not in stmt:
                m = MEMBER_RE.match(stmt)
                if m and not re.match(r'\s*(friend|using|typedef|enum)\b', stmt):
                    members.append(dict(type=re.sub(r'\s+', ' ', m.group('type')).strip(),
                                        ptr=m.group('ptr'), name=m.group('name'),
                                        arr=m.group('arr'), static=bool(m.group('static')),
                                        line=line_of(text, stmt_start + len(stmt) - len(stmt.lstrip()))))
            stmt_start = i + 1
        i += 1
    return members


class Extractor:
    def __init__(self, repo, template_path=None):
        self.repo = repo
        self.template_path = template_path
        self.cv_members = set()  # data members that are CoordinateVector values: m[i] is lowered to m.c[i]
        self.sources = {}
        self.report = dict(functions=[], members=[], dropped=[
            'access control, inline/virtual/static/explicit specifiers, const member qualifiers',
            'namespaces and template generality (one named instantiation)',
            'reference syntax (lowered to pointers)',
            'cmac_warning/cmac_status/cpucycle_tick calls and Log output',
            'cmac_assert/cmac_assert_message (compiled out in the pinned build) unless promoted',
            '#pragma omp lines',
        ])

    def src(self, rel):
        if rel not in self.sources:
            self.sources[rel] = Source(self.repo, rel)
        return self.sources[rel]

    # ------------------------------------------------------------------
    def members(self, blk):
        a = blk.attrs
        src = self.src(a['file'])
        cls = a['class']
        mem = extract_members(src, cls)
        only = set(a['only'].split(',')) if 'only' in a else None
        skip = set(a['skip'].split(',')) if 'skip' in a else set()
        typemap = {}
        if 'typemap' in a:
            for kv in a['typemap'].split(';'):
                k, v = kv.rsplit(':', 1)
                typemap[re.sub(r'\s+', '', k)] = v.strip()
        mode = a.get('mode', 'globals')
        lines = []
        names = []
        for m in mem:
            if only is not None and m['name'] not in only:
                continue
            if m['name'] in skip:
                continue
            ty = m['type']
            ty = lower_types(ty)
            ty = re.sub(r'^const\s+', '', ty)  # const data members are set by the ctor-initialiser
            ty = typemap.get(ty, typemap.get(re.sub(r'\s+', '', ty), ty))
            if '<' in ty or '::' in ty:
                raise ExtractionError('member %s::%s has type %s which needs a typemap entry' % (cls, m['name'], ty))
            decl = '%s %s%s%s;' % (ty, m['ptr'].replace('&', '*'), m['name'], m['arr'])
            lines.append('/* %s:%d */ %s' % (a['file'], m['line'], decl))
            names.append(m['name'])
            if ty.startswith('struct cm_cv_') and not m['arr'] and not m['ptr']:
                self.cv_members.add(m['name'])
        if only is not None and set(names) != only:
            raise ExtractionError('members not found in %s: %s' % (cls, sorted(only - set(names))))
        if not names:
            raise ExtractionError('no data members found for class %s' % cls)
        self.report['members'].append(dict(cls=cls, file=a['file'], names=names, mode=mode))
        if mode == 'struct':
            sname = a.get('struct', cls)
            ghost = ''
            if 'ghost' in a:
                ghost = '\n  /* ghost fields */ ' + ' '.join(g.strip() + ';' for g in a['ghost'].split(';') if g.strip())
            return 'struct %s {\n  %s%s\n};\n' % (sname, '\n  '.join(lines), ghost), names
        return '\n'.join(lines) + '\n', names

    def _tl(self, line):
        if self.template_path:
            return '#line %d "%s"\n' % (line, self.template_path)
        return ''

    # ------------------------------------------------------------------
    def inline_calls(self, inner, name, ifile, icls, rep):
        """Replace calls name(args) by the parenthesised return expression of
        the (unique) definition of name, which must consist of a single return
        statement; parameters are substituted by ((type)(arg))."""
        src = self.src(ifile)
        defs = find_definitions(src, name, icls, 'method' if icls else 'free')
        if len(defs) != 1:
            raise ExtractionError('inline %s: %d definitions in %s' % (name, len(defs), ifile))
        d = defs[0]
        body = src.text[d['body_lb'] + 1:d['body_rb']].strip()
        m = re.match(r'^return\b(.*);$', body, re.S)
        if not m or ';' in m.group(1):
            raise ExtractionError('inline %s: body is not a single return statement' % name)
        expr = re.sub(r'\s+', ' ', m.group(1)).strip()
        tmp = dict(rules={})
        expr = apply_global_rules(expr, tmp)
        params = []
        for p in split_top(d['params']):
            p = p.strip()
            if not p or p == 'void':
                continue
            mm = re.match(r'^(?:const\s+)?(.*?)\s*(&?)\s*(\w+)$', p, re.S)
            if not mm:
                raise ExtractionError('inline %s: parameter %r not understood' % (name, p))
            ty = re.sub(r'\bstd::', '', mm.group(1).strip())
            params.append((ty, mm.group(3)))
        sha = hashlib.sha256(src.text[d['start']:d['body_rb'] + 1].encode()).hexdigest()[:16]

        def build(args_text):
            args = [x.strip() for x in split_top(args_text)] if args_text.strip() else []
            if len(args) != len(params):
                raise ExtractionError('inline %s: call with %d args, definition has %d' % (name, len(args), len(params)))
            e = expr
            # simultaneous substitution
            def sub(mm):
                w = mm.group(0)
                for (ty, pn), arg in zip(params, args):
                    if w == pn:
                        return '((%s)(%s))' % (ty, arg)
                return w
            e = re.sub(r'(?<![\w.>])[A-Za-z_]\w*', sub, e)
            return '(' + e + ')'
        out = []
        pos = 0
        count = 0
        pat = re.compile(r'(?<![\w.>:])' + re.escape(name) + r'\s*\(')
        while True:
            mm = pat.search(inner, pos)
            if not mm:
                break
            lp = mm.end() - 1
            rp = match_bracket(inner, lp)
            out.append(inner[pos:mm.start()])
            call = inner[mm.start():rp + 1]
            out.append(build(inner[lp + 1:rp]) + '\n' * call.count('\n'))
            pos = rp + 1
            count += 1
        out.append(inner[pos:])
        rep.setdefault('inlined', []).append(dict(name=name, file=ifile, line=line_of(src.text, d['name_off']), sha256=sha, expr=expr, calls=count))
        return ''.join(out), count

    # ------------------------------------------------------------------
    def expect(self, a):
        """Accessor check: every definition of class::name must have a body matching the regex
        (whitespace-normalised). Unit rewrites that encode an accessor's meaning rely on this."""
        src = self.src(a['file'])
        defs = find_definitions(src, a['name'], a.get('class'), 'method' if 'class' in a else 'free')
        if not defs:
            raise ExtractionError('expect: %s not found in %s' % (a['name'], a['file']))
        rx = re.compile(a['body'])
        for d in defs:
            body = src.text[d['body_lb'] + 1:d['body_rb']]
            for nm in ASSERT_CALLS + DROP_CALLS:  # compiled-out assertions / warnings are not part of the meaning
                body = _replace_calls(body, nm, lambda a_: '', dict(rules={}), nm)
            body = re.sub(r'\s+', ' ', body).strip()
            if not rx.fullmatch(body):
                raise ExtractionError('expect: body of %s::%s is %r, does not match %r' % (a.get('class', ''), a['name'], body, a['body']))
        self.report.setdefault('accessor_checks', []).append(dict(name=a['name'], file=a['file'], body=a['body'], definitions=len(defs)))
        return '/* accessor %s::%s checked: body matches /%s/ (%d definitions) */' % (a.get('class', ''), a['name'], a['body'], len(defs))

    # ------------------------------------------------------------------
    def restartorder(self, a):
        """Slice extraction of a driver function: every statement that touches restart_writer / restart_reader,
        in textual order, lowered to a tag: component NAME for objects, NAME + scalar type for plain values.
        Emits two constant tables (write order, read order) for the harness to compare. Control flow between the
        statements is dropped (conditional components are assumed to be present or absent on both sides alike)."""
        src = self.src(a['file'])
        defs = find_definitions(src, a['function'], a.get('class'), 'method' if 'class' in a else 'free')
        if len(defs) != 1:
            raise ExtractionError('restartorder: function %s found %d times' % (a['function'], len(defs)))
        body = src.text[defs[0]['body_lb']:defs[0]['body_rb'] + 1]
        # byte size and integer/floating kind decide whether the bytes written are the bytes read (LP64); the
        # signedness of an integer of the same size does not change the value that comes back
        canon = {'uint_fast32_t': 'int8', 'int_fast32_t': 'int8', 'uint_fast64_t': 'int8', 'size_t': 'int8', 'double': 'f64', 'bool': 'bool1',
                 'uint_least32_t': 'int4', 'int_least32_t': 'int4', 'int': 'int4'}

        def decl_type(name):
            m = re.search(r'\b(uint_fast32_t|int_fast32_t|uint_fast64_t|size_t|double|bool|uint_least32_t|int_least32_t|int)\s+(?:\w+\s*(?:=[^;,]*)?,\s*)*' + re.escape(name) + r'\b', body)
            if not m:
                raise ExtractionError('restartorder: no declaration found for scalar %s' % name)
            return m.group(1)
        wpats = [(re.compile(r'(\w+)\s*(?:\.|->)\s*write_restart_(?:file|info)\s*\(\s*\*restart_writer\s*\)'), 'obj'),
                 (re.compile(r'\w+::write_restart_file\s*\(\s*\*restart_writer\s*,\s*\*?(\w+)\s*\)'), 'obj'),
                 (re.compile(r'restart_writer\s*->\s*write\s*\(\s*(\w+)\s*\)'), 'scalar')]
        rpats = [(re.compile(r'(\w+)\s*=\s*restart_reader\s*->\s*read\s*<\s*([\w ]+?)\s*>\s*\(\s*\)'), 'scalar'),
                 (re.compile(r'(\w+)\s*\.\s*read_restart_info\s*\(\s*\*restart_reader\s*\)'), 'obj'),
                 (re.compile(r'(\w+)\s*=\s*(?:new\s+)?[\w:]+(?:\s*<[^;()]*>)?(?:::\w+)?\s*\(\s*\*restart_reader\s*(?:,\s*\w+\s*)?\)'), 'obj')]

        def collect(pats):
            hits = []
            for pat, kind in pats:
                for m in pat.finditer(body):
                    hits.append((m.start(), kind, m))
            hits.sort(key=lambda h: h[0])
            seq = []
            last = -1
            for off, kind, m in hits:
                if off == last:
                    continue
                last = off
                if kind == 'obj':
                    seq.append(('obj', m.group(1), ''))
                else:
                    nm = m.group(1)
                    ty = m.group(2) if m.lastindex and m.lastindex >= 2 else decl_type(nm)
                    ty = re.sub(r'\bstd::', '', ty).strip()
                    if ty not in canon:
                        raise ExtractionError('restartorder: scalar type %s not understood' % ty)
                    seq.append(('scalar', nm, canon[ty]))
            return seq
        wseq = collect(wpats)
        rseq = collect(rpats)
        n_w = len(re.findall(r'restart_writer', body))
        n_r = len(re.findall(r'restart_reader', body))
        if not wseq or not rseq:
            raise ExtractionError('restartorder: no restart statements found in %s' % a['function'])
        names = {}

        def code(item):
            kind, nm, ty = item
            key = nm + ':' + (ty if kind == 'scalar' else 'obj')
            if key not in names:
                names[key] = len(names) + 1
            return names[key]
        wc = [code(i) for i in wseq]
        rc = [code(i) for i in rseq]
        self.report.setdefault('restart_order', []).append(dict(function=a['function'], file=a['file'],
                                                               written=['%s:%s' % (i[1], i[2] or 'obj') for i in wseq],
                                                               read=['%s:%s' % (i[1], i[2] or 'obj') for i in rseq],
                                                               mentions=dict(restart_writer=n_w, restart_reader=n_r)))
        pre = a.get('prefix', 'drv')
        out = ['/* restart order slice of %s (%s): written = %s */' % (a['function'], a['file'], ', '.join('%s:%s' % (i[1], i[2] or 'obj') for i in wseq)),
               '/* read = %s */' % ', '.join('%s:%s' % (i[1], i[2] or 'obj') for i in rseq),
               'static const int %s_written[] = {%s};' % (pre, ', '.join(str(c) for c in wc)),
               'static const int %s_read[] = {%s};' % (pre, ', '.join(str(c) for c in rc)),
               '#define %s_N_WRITTEN %d' % (pre.upper(), len(wc)),
               '#define %s_N_READ %d' % (pre.upper(), len(rc))]
        return '\n'.join(out)

    # ------------------------------------------------------------------
    def enumval(self, a):
        """#define NAME <value of enumerator NAME> (enumerators counted from 0 or from explicit '= n').
        names=A,B,C extracts several enumerators of the same file."""
        src = self.src(a['file'])
        wanted = a['names'].split(',') if 'names' in a else [a['name']]
        out = []
        enums = []
        for m in re.finditer(r'\benum\s*(?:class\s+)?\w*\s*(?::\s*\w+\s*)?\{', src.text):
            lb = m.end() - 1
            rb = match_bracket(src.text, lb)
            val = -1
            table = {}
            for item in split_top(src.text[lb + 1:rb]):
                item = item.strip()
                if not item:
                    continue
                mm = re.match(r'^(\w+)\s*(?:=\s*(.+))?$', item, re.S)
                if not mm:
                    continue
                if mm.group(2) is not None:
                    try:
                        val = int(mm.group(2).strip(), 0)
                    except ValueError:
                        ref = mm.group(2).strip()
                        if ref in table:
                            val = table[ref]
                        else:
                            raise ExtractionError('enum value %r not understood' % mm.group(2))
                else:
                    val += 1
                table[mm.group(1)] = val
            enums.append(table)
        if a.get('all') == '1':
            tabs = [t for t in enums if wanted[0] in t]
            if len(tabs) != 1:
                raise ExtractionError('enumerator %s found %d times in %s' % (wanted[0], len(tabs), a['file']))
            wanted = list(tabs[0].keys())
        for w in wanted:
            hits = [t[w] for t in enums if w in t]
            if len(hits) != 1:
                raise ExtractionError('enumerator %s found %d times in %s' % (w, len(hits), a['file']))
            out.append('#define %s %d' % (w, hits[0]))
            self.report.setdefault('defines', []).append(dict(name=w, file=a['file'], text=str(hits[0]), kind='enumerator'))
        return '\n'.join(out)

    # ------------------------------------------------------------------
    def define(self, a):
        src = self.src(a['file'])
        ms = list(re.finditer(r'^[ \t]*#define[ \t]+' + re.escape(a['name']) + r'\b((?:[^\n\\]|\\\n|\\.)*)$', src.text, flags=re.M))
        if len(ms) != 1:
            raise ExtractionError('define %s found %d times in %s' % (a['name'], len(ms), a['file']))
        body = ms[0].group(1)
        self.report.setdefault('defines', []).append(dict(name=a['name'], file=a['file'], line=line_of(src.text, ms[0].start()), text=body.strip()))
        return '#define %s%s' % (a.get('as', a['name']), body)

    def tablevalue(self, a):
        """//@@ tablevalue file= function= keys=a,b,c prefix=P [arg=N]: for an if-chain 'name == "key") { return T(v0, v1, ...);'
        emits '#define P<key> (<argument N of the constructor call>)' for each key (default: argument 0)"""
        src = self.src(a['file'])
        defs = find_definitions(src, a['function'], a.get('class'), 'method' if 'class' in a else 'free')
        if len(defs) != 1:
            raise ExtractionError('tablevalue: function %s found %d times' % (a['function'], len(defs)))
        body = src.text[defs[0]['body_lb']:defs[0]['body_rb'] + 1]
        n = int(a.get('arg', 0))
        out = []
        for key in a['keys'].split(','):
            ms = list(re.finditer(r'==\s*"' + re.escape(key) + r'"\s*\)\s*\{\s*return\s+\w+\s*\(', body))
            if len(ms) != 1:
                raise ExtractionError('tablevalue: key %r found %d times in %s' % (key, len(ms), a['function']))
            lp = ms[0].end() - 1
            rp = match_bracket(body, lp)
            args = split_top(body[lp + 1:rp])
            if n >= len(args):
                raise ExtractionError('tablevalue: key %r has only %d arguments' % (key, len(args)))
            out.append('#define %s%s (%s)' % (a.get('prefix', ''), key, re.sub(r'\s+', ' ', args[n].strip())))
        self.report.setdefault('tablevalues', []).append(dict(function=a['function'], keys=a['keys'], arg=n))
        return '\n'.join(out)

    def typedef(self, a):
        """//@@ typedef file= name= : 'typedef union|struct { ... } name;' copied verbatim (comments stripped)"""
        src = self.src(a['file'])
        ms = []
        for m in re.finditer(r'\btypedef\s+(?:union|struct)\s*\{', src.text):
            lb = src.text.index('{', m.start())
            rb = match_bracket(src.text, lb)
            m2 = re.compile(r'\s*' + re.escape(a['name']) + r'\s*;').match(src.text, rb + 1)
            if m2:
                ms.append((m.start(), m2.end()))
        if len(ms) != 1:
            raise ExtractionError('typedef %s found %d times in %s' % (a['name'], len(ms), a['file']))
        body = src.text[ms[0][0]:ms[0][1]]
        body = re.sub(r'/\*.*?\*/', ' ', body, flags=re.S)
        body = re.sub(r'//[^\n]*', ' ', body)
        self.report.setdefault('typedefs', []).append(dict(name=a['name'], file=a['file'], line=line_of(src.text, ms[0][0])))
        return re.sub(r'\n\s*\n+', '\n', body)

    # ------------------------------------------------------------------
    def function(self, blk, member_names_by_class):
        a = blk.attrs
        src = self.src(a['file'])
        rep = dict(cname=a['cname'], file=a['file'], rules={}, rewrites=[])
        kind = a.get('kind', 'method' if 'class' in a else 'free')
        text = src.text
        if blk.kind == 'region':
            pat = re.compile(a['begin'])
            lo_, hi_ = 0, len(text)
            if 'within' in a:
                wdefs = find_definitions(src, a['within'], a.get('class'), 'method' if 'class' in a else 'free')
                if len(wdefs) != 1:
                    raise ExtractionError('region %s: enclosing function %s found %d times' % (a['cname'], a['within'], len(wdefs)))
                lo_, hi_ = wdefs[0]['body_lb'], wdefs[0]['body_rb']
            ms = list(pat.finditer(text, lo_, hi_))
            occ = int(a.get('occurrence', 0))
            if not ms:
                raise ExtractionError('region %s: begin pattern not found' % a['cname'])
            if occ == 0 and len(ms) != 1:
                raise ExtractionError('region %s: begin pattern matches %d times' % (a['cname'], len(ms)))
            m = ms[occ - 1 if occ else 0]
            if 'until' in a:
                # statement sequence: from the begin match up to and including the until match
                mu = re.compile(a['until']).search(text, m.end(), hi_)
                if not mu:
                    raise ExtractionError('region %s: until pattern not found' % a['cname'])
                start_off = m.start()
                lb = None
                rb = mu.end() - 1
            elif a.get('whole') == '1':
                # statement beginning at match start up to end of its brace block
                lb = text.find('{', m.end() - 1)
                start_off = m.start()
            else:
                lb = text.find('{', m.end() - 1)
                start_off = lb
            if lb is not None:
                rb = match_bracket(text, lb)
            if 'until' in a or a.get('whole') == '1':
                body = '{' + text[start_off:rb + 1] + '}'
            else:
                body = text[lb:rb + 1]
            first_line = line_of(text, start_off)
            last_line = line_of(text, rb)
            sig = a['sig']
            refs = []
            raw_body = text[start_off:rb + 1]
            init_stmts = ''
        else:
            defs = find_definitions(src, a['name'], a.get('class'), kind)
            if 'nparams' in a:
                n = int(a['nparams'])
                defs = [d for d in defs if len([p for p in split_top(d['params']) if p.strip() and p.strip() != 'void']) == n]
            if 'params' in a:
                pr = re.compile(a['params'], re.S)
                defs = [d for d in defs if pr.search(d['params'])]
            if 'occurrence' in a:
                k = int(a['occurrence'])
                defs = defs[k - 1:k]
            if len(defs) != 1:
                raise ExtractionError('function %s (%s): %d definitions found in %s' % (
                    a['name'], a['cname'], len(defs), a['file']))
            d = defs[0]
            head = d['head']
            head = re.sub(r'\b(inline|static|virtual|explicit|friend)\b', ' ', head)
            head = re.sub(r'\b%s::' % re.escape(a.get('class', '\0')), '', head)
            head = lower_types(head)
            ret = re.sub(r'\s+', ' ', head).strip()
            if kind in ('ctor', 'dtor'):
                ret = 'void'
            if 'ret' in a:
                ret = a['ret']
            if not ret:
                raise ExtractionError('no return type for %s' % a['name'])
            if ret.endswith('&'):
                ret = ret[:-1].strip() + ' *'
                rep['rules']['reference_return->pointer'] = 1
            params, refs = lower_params(d['params'], rep)
            params = lower_types(params)
            if a.get('self') == '1':
                sname = a.get('struct', a['class'])
                params = ('struct %s *self' % sname) + (', ' + params if params else '')
            sig = '%s %s(%s)' % (ret, a['cname'], params if params else 'void')
            body = text[d['body_lb']:d['body_rb'] + 1]
            raw_body = text[d['start']:d['body_rb'] + 1]
            first_line = line_of(text, d['start'])
            last_line = line_of(text, d['body_rb'])
            init_stmts = ''
            if d['init'] is not None:
                init_stmts = lower_ctor_init(d['init'], rep)
            body_first_line = line_of(text, d['body_lb'])
        if blk.kind == 'region':
            body_first_line = first_line
        rep['first_line'] = first_line
        rep['last_line'] = last_line
        rep['sha256'] = hashlib.sha256(raw_body.encode()).hexdigest()

        inner = body[1:-1]
        if blk.kind == 'region' and a.get('loopbody') == '1':
            # the region is the body of a loop: 'continue' ends the iteration, 'break' is not expected
            inner = 'do {' + inner + '} while (0);'
        if re.search(r'^[ \t]*#[ \t]*(if|ifdef|ifndef|elif|else|endif)\b', inner, flags=re.M):
            raise ExtractionError('%s: body contains a preprocessor conditional that could not be resolved' % a['cname'])
        if init_stmts:
            inner = ' ' + init_stmts + inner
        # reference parameters
        for r in refs:
            inner, k = re.subn(r'(?<![\w.>])' + re.escape(r) + r'\b', '(*%s)' % r, inner)
            rep['rules']['reference_use->deref'] = rep['rules'].get('reference_use->deref', 0) + k
        # constref=1: 'const T &x = E;' (an alias of an lvalue that is not modified in its scope) is replaced by
        # textual substitution of (E) for x up to the end of the enclosing brace block
        if a.get('constref') == '1':
            while True:
                mcr = re.search(r'\bconst\s+[\w:<>\s,]+?&\s*(\w+)\s*=\s*([^;{}]+);', inner)
                if not mcr:
                    break
                nm, ex = mcr.group(1), mcr.group(2).strip()
                # end of the enclosing block
                depth = 0
                k = mcr.end()
                while k < len(inner):
                    if inner[k] == '{':
                        depth += 1
                    elif inner[k] == '}':
                        if depth == 0:
                            break
                        depth -= 1
                    k += 1
                scope = re.sub(r'(?<![\w.>])' + re.escape(nm) + r'\b', '(%s)' % ex, inner[mcr.end():k])
                inner = inner[:mcr.start()] + '/* alias %s */' % nm + scope + inner[k:]
                rep['rules']['const_reference->substitution'] = rep['rules'].get('const_reference->substitution', 0) + 1
        # local references bound with 'auto &x = E;' become pointers: 'T *x__ref = &(E);', later uses '(*x__ref)'
        # (a reference is an alias of the object E denotes at that point - and dangles when that object dies)
        while True:
            mref = re.search(r'\bauto\s*&\s*(\w+)\s*=\s*([^;{}]+);', inner)
            if not mref:
                break
            nm, ex = mref.group(1), mref.group(2).strip()
            head_ = inner[:mref.start()] + '__typeof__(%s) *%s__ref = &(%s);' % (ex, nm, ex)
            tail_ = re.sub(r'(?<![\w.>])' + re.escape(nm) + r'\b(?!__ref)', '(*%s__ref)' % nm, inner[mref.end():])
            inner = head_ + tail_
            rep['rules']['auto_reference->pointer'] = rep['rules'].get('auto_reference->pointer', 0) + 1
        inner = apply_global_rules(inner, rep, promote_asserts=(a.get('asserts') == 'promote'))
        # textual inlining of single-return helper functions
        for spec in blk.inlines:
            parts = spec.split('@')
            nm = parts[0]
            ifile = parts[1] if len(parts) > 1 and parts[1] else a['file']
            icls = parts[2] if len(parts) > 2 else a.get('class')
            inner, k = self.inline_calls(inner, nm, ifile, icls, rep)
        # automatic inlining of single-return helper methods of the same class that the body calls on the
        # implicit object (e.g. TimeLine::to_physical_time): keeps the extracted text compilable when a change
        # starts using another small helper of the class
        if a.get('class') and kind != 'free' and blk.kind != 'region' and a.get('autoinline', '1') == '1':
            known = set(blk.callmap) | set(x.split('@')[0] for x in blk.inlines)
            pending_extract = []
            for cand in sorted(set(re.findall(r'(?<![\w.>:])([a-z_]\w*)\s*\(', inner))):
                if cand in known or cand in ('if', 'while', 'for', 'switch', 'return', 'sizeof') or cand.startswith('cm_') or cand == a['name']:
                    continue
                try:
                    cdefs = find_definitions(src, cand, a['class'], 'method')
                    if len(cdefs) != 1:
                        continue
                    cbody = src.text[cdefs[0]['body_lb'] + 1:cdefs[0]['body_rb']].strip()
                    if not re.match(r'^return\b[^;]*;$', cbody, re.S):
                        # a helper with a real body (e.g. introduced by a refactoring): candidate for extraction as a C
                        # function of its own - decided AFTER the unit rewrites, which may already account for the call
                        if a.get('autoextract', '1') == '1' and not a.get('_helper'):
                            pending_extract.append(cand)
                        continue
                    inner, k = self.inline_calls(inner, cand, a['file'], a['class'], rep)
                    if k:
                        rep['rules']['auto_inline:%s' % cand] = k
                except ExtractionError:
                    continue
        # operator[] on CoordinateVector-valued data members
        for nm in sorted(self.cv_members):
            inner, k = re.subn(r'(?<![\w.>])' + re.escape(nm) + r'\s*\[', nm + '.c[', inner)
            if k:
                rep['rules']['coordinatevector_member_index'] = rep['rules'].get('coordinatevector_member_index', 0) + k
        # call map (member function calls on the implicit object)
        for nm, cn in blk.callmap.items():
            inner, k = re.subn(r'(?<![\w.>:])' + re.escape(nm) + r'\s*\(', cn + '(', inner)
            if k == 0:
                raise ExtractionError('%s: callmap %s never used' % (a['cname'], nm))
            rep['rules']['callmap:%s' % nm] = k
        # unit-specific rewrites (must fire)
        for rx, repl, mn in blk.rewrites:
            def keep_lines(m, repl=repl):
                r = m.expand(repl)
                lost = m.group(0).count('\n') - r.count('\n')
                return r + '\n' * max(0, lost)
            inner, k = re.subn(rx, keep_lines, inner, flags=re.S)
            rep['rewrites'].append(dict(regex=rx, repl=repl, hits=k, min=mn))
            if k < mn:
                raise ExtractionError('%s: must-fire rewrite %r fired %d < %d times' % (a['cname'], rx, k, mn))
        for cand in (pending_extract if (a.get('class') and kind != 'free' and blk.kind != 'region' and a.get('autoinline', '1') == '1') else []):
            if not re.search(r'(?<![\w.>:])' + re.escape(cand) + r'\s*\(', inner):
                continue
            hname = '%s__%s' % (a['cname'], cand)
            hb = Block('function', dict(file=a['file'], name=cand, cname=hname, _helper='1'), blk.lineno)
            hb.attrs['class'] = a['class']
            for kk in ('self', 'struct', 'constref'):
                if kk in a:
                    hb.attrs[kk] = a[kk]
            hb.rewrites = [(rx, rp, 0) for (rx, rp, mn) in blk.rewrites]
            hb.callmap = dict(blk.callmap)
            hb.end_line = blk.lineno
            try:
                htxt = self.function(hb, member_names_by_class)
            except ExtractionError:
                continue  # not extractable: the call stays as it is (and fails to compile if it matters)
            self._helper_texts.append(htxt)
            inner, kh = re.subn(r'(?<![\w.>:])' + re.escape(cand) + r'\s*\(', hname + '(', inner)
            rep['rules']['auto_extract_helper:%s' % cand] = kh
        if a.get('opaque') and blk.kind != 'region':
            mv = [x for x in a.get('opaquemembers', '').split(',') if x]
            is_const = bool(re.search(r'\)\s*const\b', text[d['start']:d['body_lb']]))
            inner = havoc_opaque_statements(inner, a['opaque'], mv, is_const, rep)
        # self-> for struct mode
        if a.get('self') == '1':
            names = member_names_by_class.get(a['class'])
            if not names and 'struct' not in a:
                raise ExtractionError('%s: self=1 needs a members block for class %s before it' % (a['cname'], a['class']))
            for nm in (names or []):
                inner, k = re.subn(r'(?<![\w.>])' + re.escape(nm) + r'\b', 'self->' + nm, inner)
            rep['rules']['member->self'] = 1
        # loop contracts (insert from the back so offsets stay valid)
        ins = []
        if blk.loops:
            loops = dict(find_loops(inner))
            for ordn, lines in blk.loops.items():
                if ordn not in loops:
                    # the loop this contract was written for no longer exists (e.g. turned into an 'if'):
                    # the function contract is still checked, without that loop contract
                    rep.setdefault('loop_contracts_not_applied', []).append(ordn)
                    continue
                # CM_OPT(x): x is named in the clause only when a local x is declared before the loop (a name
                # builder hoisted out of the loop is part of the loop's frame; one declared inside is not in scope)
                def opt(m, off=loops[ordn]):
                    d = re.search(r'[\w>\]]\s+' + re.escape(m.group(1)) + r'\s*(=|;|\{)', inner[:off])
                    return (m.group(1) + ', ') if d else ''
                lines = [re.sub(r'CM_OPT\((\w+)\)\s*', opt, l) for l in lines]
                ins.append((loops[ordn], '\n' + self._tl(blk.loop_lines[ordn]) + '\n'.join(lines) + '\n'))
            rep['loops_annotated'] = sorted(blk.loops)
            rep['loops_total'] = len(loops)
        else:
            rep['loops_total'] = len(find_loops(inner))
            rep['loops_annotated'] = []
        for where, rx, lines, tline in blk.injects:
            ms = list(re.finditer(rx, inner, flags=re.S))
            if len(ms) != 1:
                raise ExtractionError('%s: inject anchor %r matches %d times' % (a['cname'], rx, len(ms)))
            off = ms[0].start() if where == 'before' else ms[0].end()
            ins.append((off, '\n' + self._tl(tline) + '\n'.join(lines) + '\n'))
        # line-preserving insertion: inserted text is wrapped by #line resets
        ins.sort(key=lambda t: -t[0])
        abs_file = os.path.join(self.repo, a['file'])
        for off, txt in ins:
            ln = body_first_line + inner.count('\n', 0, off)
            # CBMC wants loop-contract clauses directly after ')': no #line in between
            inner = inner[:off] + txt + '#line %d "%s"\n' % (ln, abs_file) + inner[off:]
        pro = ''
        if blk.prologue:
            pro = '\n'.join(blk.prologue) + '\n'
        epi = ''
        if blk.epilogue:
            epi = '\n'.join(blk.epilogue) + '\n'
        for rx, repl in blk.sigrewrites:
            sig, k = re.subn(rx, repl, sig)
            if k == 0:
                raise ExtractionError('%s: sigrewrite %r did not fire' % (a['cname'], rx))
        out = []
        out.append('/* extracted from %s:%d-%d sha256=%s */' % (a['file'], first_line, last_line, rep['sha256'][:16]))
        out.append(sig)
        if blk.contract and self.template_path:
            out.append('#line %d "%s"' % (blk.contract_line, self.template_path))
        out.extend(blk.contract)
        out.append('{')
        if pro:
            out.append(pro)
        out.append('#line %d "%s"' % (body_first_line, abs_file))
        out.append(inner)
        if epi:
            out.append(epi)
        out.append('}')
        if self.template_path and getattr(blk, 'end_line', None):
            out.append('#line %d "%s"' % (blk.end_line, self.template_path))
        rep['signature'] = sig
        self.report['functions'].append(rep)
        return '\n'.join(out) + '\n'

    # ------------------------------------------------------------------
    def process(self, template_text):
        items = parse_template(template_text)
        out = []
        jobs = []
        member_names = {}
        for kind, it in items:
            if kind == 'text':
                out.append(it)
            elif kind == 'job':
                jobs.append(it)
            elif kind == 'define':
                out.append(self.define(it))
            elif kind == 'enumval':
                out.append(self.enumval(it))
            elif kind == 'typedef':
                out.append(self.typedef(it))
            elif kind == 'tablevalue':
                out.append(self.tablevalue(it))
            elif kind == 'expect':
                out.append(self.expect(it))
            elif kind == 'restartorder':
                out.append(self.restartorder(it))
            else:
                if it.kind == 'members':
                    txt, names = self.members(it)
                    member_names[it.attrs['class']] = names
                    out.append(txt)
                else:
                    self._helper_texts = []
                    ftxt = self.function(it, member_names)
                    out.extend(self._helper_texts)
                    out.append(ftxt)
        return '\n'.join(out) + '\n', jobs


def main(argv):
    import argparse
    ap = argparse.ArgumentParser()
    ap.add_argument('--repo', default='/repo')
    ap.add_argument('template')
    ap.add_argument('-o', '--out', required=True)
    ap.add_argument('--report')
    args = ap.parse_args(argv)
    ex = Extractor(args.repo)
    try:
        with open(args.template) as f:
            text, jobs = ex.process(f.read())
    except ExtractionError as e:
        sys.stderr.write('EXTRACTION BROKE: %s\n' % e)
        return 2
    with open(args.out, 'w') as f:
        f.write(text)
    if args.report:
        with open(args.report, 'w') as f:
            json.dump(dict(report=ex.report, jobs=jobs), f, indent=1)
    return 0


if __name__ == '__main__':
    sys.exit(main(sys.argv[1:]))
