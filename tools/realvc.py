#!/usr/bin/env python3
"""realvc: contract checking of straight-line floating-point code with MATHEMATICAL (real) arithmetic.

CBMC bit-blasts doubles and cannot decide algebraic identities over ~40 multiplications and divisions. For
functions / regions that are straight-line arithmetic (declarations, assignments, if/else, no loops, no
pointers) this back end generates the verification conditions itself:

    extracted C (same text the extractor produces for CBMC)  --cpp-->  statements
    --symbolic execution (SSA, if/else merged with ite)-->  terms over the reals
    requires /\\ not(ensures)  --SMT-LIB2 QF_NRA-->  z3 / cvc5     (unsat = discharged)

plus one obligation per division: under the requires the denominator is not zero.

ASSUMPTION reported in the evidence of every job that uses it: machine arithmetic is treated as mathematical
(no rounding, no overflow, no NaN); sqrt is the real square root. A violated obligation comes with a model,
which is replayed on the real code by the unit's native driver.

Supported C subset (anything else: RealVCError -> the job is undecided, never passed):
  [const] double|int|bool x [= e];   x = e;  x += e; x -= e; x *= e; x /= e;   if (c) {..} [else {..}|else if ..]
  expressions: numbers, identifiers, + - * /, unary -, !, && || ==> , comparisons, ?:, (double) casts,
  cm_sqrt(e), cm_pow(a, b) (uninterpreted, congruence only), __CPROVER_old(e) (in ensures).
Integer-typed variables are mathematical numbers too (no truncation, no wrap-around): exact as long as the values
they receive are integers in range; jobs name such inputs with intvars= so that the differential check samples integers.
"""
import os
import re
import subprocess
import tempfile
import time


class RealVCError(Exception):
    pass


TOK = re.compile(r'\s*(?:(\d+\.?\d*(?:[eE][+-]?\d+)?[fFlL]?|\.\d+(?:[eE][+-]?\d+)?)|([A-Za-z_]\w*)|(==>|<=|>=|==|!=|&&|\|\||\+=|-=|\*=|/=|[-+*/()<>!?:;,{}=\[\].]))')


def tokenize(s):
    out = []
    pos = 0
    s = s.rstrip()
    while pos < len(s):
        m = TOK.match(s, pos)
        if not m:
            raise RealVCError('cannot tokenize near %r' % s[pos:pos + 40])
        if m.group(1):
            out.append(('num', m.group(1)))
        elif m.group(2):
            out.append(('id', m.group(2)))
        else:
            out.append(('op', m.group(3)))
        pos = m.end()
    return out


class Parser:
    """expression / statement parser producing small ASTs (tuples)"""

    def __init__(self, toks):
        self.t = toks
        self.i = 0

    def peek(self, k=0):
        return self.t[self.i + k] if self.i + k < len(self.t) else ('eof', '')

    def eat(self, val=None):
        tk = self.peek()
        if val is not None and tk[1] != val:
            raise RealVCError('expected %r, found %r (token %d)' % (val, tk[1], self.i))
        self.i += 1
        return tk

    # ---- expressions, lowest precedence first
    def expr(self):
        return self.ternary()

    def ternary(self):
        c = self.implies()
        if self.peek()[1] == '?':
            self.eat('?')
            a = self.expr()
            self.eat(':')
            b = self.ternary()
            return ('ite', c, a, b)
        return c

    def implies(self):
        a = self.lor()
        if self.peek()[1] == '==>':
            self.eat()
            b = self.implies()
            return ('=>', a, b)
        return a

    def lor(self):
        a = self.land()
        while self.peek()[1] == '||':
            self.eat()
            a = ('or', a, self.land())
        return a

    def land(self):
        a = self.equality()
        while self.peek()[1] == '&&':
            self.eat()
            a = ('and', a, self.equality())
        return a

    def equality(self):
        a = self.rel()
        while self.peek()[1] in ('==', '!='):
            op = self.eat()[1]
            b = self.rel()
            a = ('=', a, b) if op == '==' else ('not', ('=', a, b))
        return a

    def rel(self):
        a = self.add()
        while self.peek()[1] in ('<', '<=', '>', '>='):
            op = self.eat()[1]
            a = (op, a, self.add())
        return a

    def add(self):
        a = self.mul()
        while self.peek()[1] in ('+', '-'):
            op = self.eat()[1]
            a = (op, a, self.mul())
        return a

    def mul(self):
        a = self.unary()
        while self.peek()[1] in ('*', '/'):
            op = self.eat()[1]
            a = (op, a, self.unary())
        return a

    def unary(self):
        tk = self.peek()
        if tk[1] == '-':
            self.eat()
            return ('neg', self.unary())
        if tk[1] == '+':
            self.eat()
            return self.unary()
        if tk[1] == '!':
            self.eat()
            return ('not', self.unary())
        if tk[1] == '(' and self.peek(1)[1] in ('double', 'float', 'int', 'bool', 'const') and self.peek(2)[1] == ')':
            self.eat(); self.eat(); self.eat()
            return self.unary()
        return self.primary()

    def primary(self):
        tk = self.eat()
        if tk[0] == 'num':
            return ('num', tk[1].rstrip('fFlL'))
        if tk[1] == '(':
            e = self.expr()
            self.eat(')')
            return e
        if tk[0] == 'id':
            if self.peek()[1] == '(':
                self.eat('(')
                args = []
                if self.peek()[1] != ')':
                    args.append(self.expr())
                    while self.peek()[1] == ',':
                        self.eat()
                        args.append(self.expr())
                self.eat(')')
                return ('call', tk[1], args)
            return ('var', tk[1])
        raise RealVCError('unexpected token %r' % (tk[1],))

    # ---- statements
    def block(self):
        self.eat('{')
        st = []
        while self.peek()[1] != '}':
            st.append(self.stmt())
        self.eat('}')
        return st

    def stmt(self):
        tk = self.peek()
        if tk[1] == '{':
            return ('block', self.block())
        if tk[1] == ';':
            self.eat()
            return ('skip',)
        if tk[1] == 'if':
            self.eat()
            self.eat('(')
            c = self.expr()
            self.eat(')')
            th = self.stmt()
            el = ('skip',)
            if self.peek()[1] == 'else':
                self.eat()
                el = self.stmt()
            return ('if', c, th, el)
        if tk[1] == 'return':
            self.eat()
            if self.peek()[1] != ';':
                raise RealVCError('return with a value is not supported')
            self.eat(';')
            return ('return',)
        if tk[1] in ('for', 'while', 'do', 'switch', 'goto'):
            raise RealVCError('statement %r is outside the straight-line subset' % tk[1])
        # declaration?
        j = self.i
        while self.t[j][1] in ('const', 'static', 'unsigned', 'signed'):
            j += 1
        if self.t[j][1] in ('double', 'float', 'int', 'bool', '_Bool', 'long', 'uint_fast32_t', 'int_fast32_t', 'size_t') and self.t[j + 1][0] == 'id':
            ty = self.t[j][1]
            self.i = j + 1
            name = self.eat()[1]
            init = None
            if self.peek()[1] == '=':
                self.eat()
                init = self.expr()
            self.eat(';')
            return ('decl', ty, name, init)
        name = self.eat()
        if name[0] != 'id':
            raise RealVCError('statement starts with %r' % (name[1],))
        op = self.eat()[1]
        if op not in ('=', '+=', '-=', '*=', '/='):
            raise RealVCError('unsupported statement: %s %s ...' % (name[1], op))
        e = self.expr()
        self.eat(';')
        if op != '=':
            e = (op[0], ('var', name[1]), e)
        return ('assign', name[1], e)


class SymExec:
    def __init__(self):
        self.decls = {}      # smt symbol -> sort
        self.env = {}        # program variable -> smt term
        self.sort = {}       # program variable -> 'Real' | 'Bool'
        self.divs = []       # (path condition, denominator term, text)
        self.axioms = []
        self.nsqrt = 0
        self.pows = []
        self.sqrts = []
        self.abss = []
        self.locals = set()
        self.outparams = set()
        self.assigned = set()
        self.init = {}

    def fresh_input(self, name, sort='Real'):
        sym = name + '!0'
        self.decls[sym] = sort
        self.env[name] = '|%s|' % sym
        self.sort[name] = sort
        self.init[name] = '|%s|' % sym
        return self.env[name]

    def term(self, e, pc, old=False):
        k = e[0]
        if k == 'num':
            v = e[1]
            if re.match(r'^\d+$', v):
                return v + '.0'
            m = re.match(r'^(\d*\.?\d*)[eE]([+-]?\d+)$', v)
            if m:
                mant = m.group(1) if m.group(1) not in ('', '.') else '1'
                if '.' not in mant:
                    mant += '.0'
                if mant.endswith('.'):
                    mant += '0'
                if mant.startswith('.'):
                    mant = '0' + mant
                ex = int(m.group(2))
                return '(* %s %s)' % (mant, ('1' + '0' * ex + '.0') if ex >= 0 else '(/ 1.0 1%s.0)' % ('0' * (-ex)))
            if v.endswith('.'):
                v += '0'
            if v.startswith('.'):
                v = '0' + v
            return v
        if k == 'var':
            n = e[1]
            if n in ('true',):
                return 'true'
            if n in ('false',):
                return 'false'
            src = self.init if old else self.env
            if n not in src:
                # an identifier never assigned: a free input (global of the unit / parameter)
                self.fresh_input(n)
                src = self.init if old else self.env
            return src[n]
        if k == 'neg':
            return '(- %s)' % self.term(e[1], pc, old)
        if k == 'not':
            return '(not %s)' % self.boolean(e[1], pc, old)
        if k in ('+', '-', '*'):
            return '(%s %s %s)' % (k, self.term(e[1], pc, old), self.term(e[2], pc, old))
        if k == '/':
            d = self.term(e[2], pc, old)
            self.divs.append((pc, d))
            return '(/ %s %s)' % (self.term(e[1], pc, old), d)
        if k in ('<', '<=', '>', '>=', '='):
            return '(%s %s %s)' % (k, self.term(e[1], pc, old), self.term(e[2], pc, old))
        if k in ('and', 'or', '=>'):
            return '(%s %s %s)' % (k, self.boolean(e[1], pc, old), self.boolean(e[2], pc, old))
        if k == 'ite':
            return '(ite %s %s %s)' % (self.boolean(e[1], pc, old), self.term(e[2], pc, old), self.term(e[3], pc, old))
        if k == 'call':
            if e[1] in ('cm_sqrt', 'sqrt') and len(e[2]) == 1:
                a = self.term(e[2][0], pc, old)
                for (a2, s2) in self.sqrts:
                    if a2 == a:
                        return '|%s|' % s2
                self.nsqrt += 1
                s = 'sqrt!%d' % self.nsqrt
                self.decls[s] = 'Real'
                # real square root of a non-negative argument (for a negative one the result is unconstrained, but
                # still a function of the argument: congruence with every other call)
                self.axioms.append('(=> (>= %s 0.0) (and (>= |%s| 0.0) (= (* |%s| |%s|) %s)))' % (a, s, s, s, a))
                for (a2, s2) in self.sqrts:
                    self.axioms.append('(=> (= %s %s) (= |%s| |%s|))' % (a, a2, s, s2))
                self.sqrts.append((a, s))
                return '|%s|' % s
            if e[1] in ('fabs', '__builtin_fabs', 'cm_abs') and len(e[2]) == 1:
                # |x| as a shared symbol with its defining axioms (s >= 0, s^2 = x^2, s >= x, s >= -x): keeps large sums of
                # absolute values polynomial instead of 2^n case splits
                a = self.term(e[2][0], pc, old)
                for (a2, s2) in self.abss:
                    if a2 == a:
                        return '|%s|' % s2
                sname = 'abs!%d' % (len(self.abss) + 1)
                self.decls[sname] = 'Real'
                self.axioms.append('(and (>= |%s| 0.0) (= (* |%s| |%s|) (* %s %s)) (>= |%s| %s) (>= |%s| (- %s)))' % (sname, sname, sname, a, a, sname, a, sname, a))
                self.abss.append((a, sname))
                return '|%s|' % sname
            if e[1] in ('cm_pow', 'pow') and len(e[2]) == 2:
                # pow is UNINTERPRETED: a fresh real per call, made functional by Ackermann congruence axioms
                # (equal arguments give equal results); nothing else is assumed about its values
                a = self.term(e[2][0], pc, old)
                b = self.term(e[2][1], pc, old)
                for (a2, b2, s2) in self.pows:
                    if a2 == a and b2 == b:
                        return '|%s|' % s2
                sname = 'pow!%d' % (len(self.pows) + 1)
                self.decls[sname] = 'Real'
                for (a2, b2, s2) in self.pows:
                    self.axioms.append('(=> (and (= %s %s) (= %s %s)) (= |%s| |%s|))' % (a, a2, b, b2, sname, s2))
                self.pows.append((a, b, sname))
                return '|%s|' % sname
            if e[1] == '__CPROVER_old' and len(e[2]) == 1:
                return self.term(e[2][0], pc, True)
            raise RealVCError('call of %s is outside the supported subset' % e[1])
        raise RealVCError('unsupported expression node %r' % (k,))

    def boolean(self, e, pc, old=False):
        t = self.term(e, pc, old)
        if e[0] in ('<', '<=', '>', '>=', '=', 'and', 'or', '=>', 'not') or t in ('true', 'false'):
            return t
        if e[0] == 'var' and self.sort.get(e[1]) == 'Bool':
            return t
        if e[0] == 'ite':
            return t
        # arithmetic value used as a truth value
        return '(not (= %s 0.0))' % t

    def run(self, stmts, pc='true'):
        """executes statements; returns the condition under which execution 'returned' early"""
        returned = 'false'
        for s in stmts:
            returned = self.exec1(s, pc, returned)
        return returned

    def assign(self, name, val, guard):
        if guard == 'true' or name not in self.env:
            self.env[name] = val
        else:
            self.env[name] = '(ite %s %s %s)' % (guard, val, self.env[name])

    def exec1(self, s, pc, returned):
        live = pc if returned == 'false' else '(and %s (not %s))' % (pc, returned)
        k = s[0]
        if k == 'skip':
            return returned
        if k == 'block':
            for x in s[1]:
                returned = self.exec1(x, pc, returned)
            return returned
        if k == 'decl':
            _, ty, name, init = s
            self.locals.add(name)
            self.sort[name] = 'Bool' if ty in ('bool', '_Bool') else 'Real'
            if init is None:
                sym = '%s!u%d' % (name, len(self.decls))
                self.decls[sym] = self.sort[name]
                self.env[name] = '|%s|' % sym
            else:
                v = self.boolean(init, live) if self.sort[name] == 'Bool' else self.term(init, live)
                self.env[name] = v
            return returned
        if k == 'assign':
            _, name, e = s
            self.assigned.add(name)
            if name not in self.env:
                self.fresh_input(name)
            v = self.boolean(e, live) if self.sort.get(name) == 'Bool' else self.term(e, live)
            self.assign(name, v, 'true' if returned == 'false' and pc == 'true' else live)
            return returned
        if k == 'return':
            return live if returned == 'false' else '(or %s %s)' % (returned, live)
        if k == 'if':
            _, c, th, el = s
            cond = self.boolean(c, live)
            before = dict(self.env)
            r1 = self.exec1(th, '(and %s %s)' % (live, cond), 'false')
            env_then = self.env
            self.env = dict(before)
            r2 = self.exec1(el, '(and %s (not %s))' % (live, cond), 'false')
            env_else = self.env
            merged = {}
            for name in set(env_then) | set(env_else):
                a = env_then.get(name)
                b = env_else.get(name)
                if a is None or b is None:
                    # declared in one branch only: visible value is that branch's (guarded use is the contract's business)
                    merged[name] = a if b is None else b
                elif a == b:
                    merged[name] = a
                else:
                    merged[name] = '(ite %s %s %s)' % (cond, a, b)
            self.env = merged
            rr = returned
            for r in (r1, r2):
                if r != 'false':
                    rr = r if rr == 'false' else '(or %s %s)' % (rr, r)
            return rr
        raise RealVCError('unsupported statement kind %r' % (k,))


def find_function(ctext, fname):
    """returns (params, requires[], ensures[], body) of the definition of fname in preprocessed C"""
    m = re.search(r'\b(?:void|double)\s+' + re.escape(fname) + r'\s*\(([^)]*)\)', ctext)
    if not m:
        raise RealVCError('function %s not found in the extracted text' % fname)
    pos = m.end()
    req, ens = [], []
    while True:
        m2 = re.compile(r'\s*(__CPROVER_requires|__CPROVER_ensures|__CPROVER_assigns)\s*\(').match(ctext, pos)
        if not m2:
            break
        depth = 1
        j = m2.end()
        while depth:
            ch = ctext[j]
            depth += ch == '('
            depth -= ch == ')'
            j += 1
        inner = ctext[m2.end():j - 1]
        if m2.group(1).endswith('requires'):
            req.append(inner)
        elif m2.group(1).endswith('ensures'):
            ens.append(inner)
        pos = j
    lb = ctext.index('{', pos)
    depth = 0
    j = lb
    while True:
        ch = ctext[j]
        depth += ch == '{'
        depth -= ch == '}'
        j += 1
        if depth == 0:
            break
    return m.group(1), req, ens, ctext[lb:j]


def preprocess(cfile, incdirs, defines):
    cmd = ['gcc', '-E', '-P', '-x', 'c', '-DCM_REALVC'] + ['-I' + d for d in incdirs] + ['-D' + d for d in defines] + [cfile]
    p = subprocess.run(cmd, stdout=subprocess.PIPE, stderr=subprocess.PIPE)
    if p.returncode != 0:
        raise RealVCError('cpp failed: ' + p.stderr.decode(errors='replace')[-1500:])
    return p.stdout.decode()


SOLVERS = [('z3', 'z3 -T:%d %s'), ('cvc5', 'cvc5 --tlimit=%d000 %s'), ('z3-new', 'z3-new -T:%d %s')]


def solve(smt, workdir, label, timeout):
    """race the installed solvers; returns (verdict, solver, seconds, output)"""
    path = os.path.join(workdir, re.sub(r'[^\w.]+', '_', label) + '.smt2')
    with open(path, 'w') as f:
        f.write(smt)
    procs = []
    t0 = time.time()
    for name, fmt in SOLVERS:
        try:
            procs.append((name, subprocess.Popen(['bash', '-c', 'ulimit -v 8000000; exec ' + fmt % (timeout, path)], stdout=subprocess.PIPE, stderr=subprocess.PIPE)))
        except OSError:
            pass
    verdict, who, out = 'unknown', '', ''
    deadline = t0 + timeout + 5
    pending = list(procs)
    while pending and time.time() < deadline and verdict == 'unknown':
        for name, p in list(pending):
            if p.poll() is not None:
                pending.remove((name, p))
                o = p.stdout.read().decode(errors='replace')
                first = o.strip().split('\n')[0].strip() if o.strip() else ''
                if first in ('sat', 'unsat'):
                    verdict, who, out = first, name, o
                    break
                out = out or ('%s: %s %s' % (name, o[:300], p.stderr.read().decode(errors='replace')[:300]))
        time.sleep(0.05)
    for name, p in pending:
        try:
            p.kill()
        except OSError:
            pass
    return verdict, who, round(time.time() - t0, 2), out


def eval_real(txt):
    """value of a solver model term: decimal, (- x), (/ a b); None for algebraic numbers"""
    txt = txt.strip()
    try:
        if txt.startswith('('):
            inner = txt[1:-1].strip()
            op, rest = inner.split(None, 1)
            args = []
            depth = 0
            cur = ''
            for ch in rest:
                if ch == '(':
                    depth += 1
                if ch == ')':
                    depth -= 1
                if ch.isspace() and depth == 0:
                    if cur:
                        args.append(cur)
                    cur = ''
                else:
                    cur += ch
            if cur:
                args.append(cur)
            vals = [eval_real(a) for a in args]
            if any(v is None for v in vals):
                return None
            if op == '-':
                return -vals[0] if len(vals) == 1 else vals[0] - vals[1]
            if op == '/':
                return vals[0] / vals[1]
            if op == '+':
                return sum(vals)
            if op == '*':
                r = 1.0
                for v in vals:
                    r *= v
                return r
            return None
        return float(txt.rstrip('?'))
    except Exception:
        return None



# ---------------------------------------------------------------------------------------------------------------
# Differential check of the VC generator: the symbolic terms are evaluated numerically (Python floats) and compared
# with the extracted C text compiled by gcc and run on the same random inputs. This tests realvc's parsing and
# symbolic execution against the compiler's semantics on every run; it does not touch the contract.

def _sexpr(txt):
    toks = re.findall(r'\|[^|]*\||[()]|[^\s()]+', txt)
    pos = [0]

    def rd():
        t = toks[pos[0]]
        pos[0] += 1
        if t == '(':
            lst = []
            while toks[pos[0]] != ')':
                lst.append(rd())
            pos[0] += 1
            return lst
        return t
    return rd()


class _Incomparable(Exception):
    pass


def _ev(node, val, defs, cache):
    import math
    if isinstance(node, str):
        if node.startswith('|'):
            name = node[1:-1]
            if name in val:
                return val[name]
            if name in cache:
                return cache[name]
            if name in defs:
                kind, args = defs[name]
                a = [_ev(_sexpr(x), val, defs, cache) for x in args]
                if kind == 'abs':
                    r = abs(a[0])
                elif kind == 'sqrt':
                    if not a[0] >= 0:
                        raise _Incomparable()
                    r = math.sqrt(a[0])
                else:
                    try:
                        r = math.pow(a[0], a[1])
                    except (ValueError, OverflowError, ZeroDivisionError):
                        raise _Incomparable()
                cache[name] = r
                return r
            raise KeyError(name)
        if node == 'true':
            return True
        if node == 'false':
            return False
        return float(node)
    op = node[0]
    if op == 'ite':
        return _ev(node[2], val, defs, cache) if _ev(node[1], val, defs, cache) else _ev(node[3], val, defs, cache)
    if op == 'and':
        return all(_ev(x, val, defs, cache) for x in node[1:])
    if op == 'or':
        return any(_ev(x, val, defs, cache) for x in node[1:])
    if op == 'not':
        return not _ev(node[1], val, defs, cache)
    if op == '=>':
        return (not _ev(node[1], val, defs, cache)) or _ev(node[2], val, defs, cache)
    a = [_ev(x, val, defs, cache) for x in node[1:]]
    if op == '+':
        return a[0] + a[1]
    if op == '-':
        return -a[0] if len(a) == 1 else a[0] - a[1]
    if op == '*':
        return a[0] * a[1]
    if op == '/':
        if a[1] == 0:
            raise _Incomparable()
        return a[0] / a[1]
    if op == '<':
        return a[0] < a[1]
    if op == '<=':
        return a[0] <= a[1]
    if op == '>':
        return a[0] > a[1]
    if op == '>=':
        return a[0] >= a[1]
    if op == '=':
        return a[0] == a[1]
    raise RealVCError('differential evaluation: operator %r' % op)


def differential_check(se, unit_c, fname, params, jd, incdirs, defines, samples=200, intvars=()):
    """returns dict(cases=, compared=, what=) or dict(skipped=reason); raises RealVCError on a disagreement"""
    import math
    import random
    pnames = []
    for p in [x.strip() for x in params.split(',') if x.strip() and x.strip() != 'void']:
        pnames.append(p.replace('*', ' ').split()[-1])
    inputs = [n for n in se.init if se.sort.get(n, 'Real') == 'Real']
    outputs = sorted(n for n in se.assigned if n not in se.locals and (n not in pnames or n in se.outparams) and se.sort.get(n, 'Real') == 'Real')
    if not outputs:
        return dict(skipped='the function assigns no non-local variable (lemma over the specification)')
    glob = [n for n in inputs if n not in pnames]
    drv = os.path.join(jd, 'diff_driver.c')
    with open(drv, 'w') as f:
        f.write('#include <math.h>\n#include <stdio.h>\n#include <stdlib.h>\n#define cm_sqrt sqrt\n#define cm_pow pow\n#define cm_abs fabs\n#define __CPROVER_requires(...)\n#define __CPROVER_ensures(...)\n#define __CPROVER_assigns(...)\n')
        for n in sorted((set(glob) | set(outputs)) - set(pnames)):
            f.write('double %s;\n' % n)
        f.write('#include "%s"\n' % unit_c)
        f.write('int main(int argc, char **argv) {\n  int k = 1;\n')
        for n in glob:
            f.write('  %s = atof(argv[k++]);\n' % n)
        for n in pnames:
            f.write('  double p_%s = atof(argv[k++]);\n' % n)
        f.write('  %s(%s);\n' % (fname, ', '.join(('&p_' if n in se.outparams else 'p_') + n for n in pnames)))
        for n in outputs:
            f.write('  printf("%%.17g\\n", %s);\n' % (('p_' + n) if n in se.outparams else n))
        f.write('  return 0;\n}\n')
    exe = os.path.join(jd, 'diff_driver')
    cmd = ['gcc', '-O0', '-w', '-DCM_NATIVE', '-DCM_REALVC'] + ['-I' + d for d in incdirs] + ['-D' + d for d in defines] + [drv, '-o', exe, '-lm']
    p = subprocess.run(cmd, stdout=subprocess.PIPE, stderr=subprocess.PIPE)
    if p.returncode != 0:
        errs = [l for l in p.stderr.decode(errors='replace').split('\n') if 'error' in l]
        return dict(skipped='extracted text does not compile stand-alone as C: ' + (errs[0] if errs else '?')[:240])
    defs = {}
    for (a, sname) in se.sqrts:
        defs[sname] = ('sqrt', [a])
    for (a, b, sname) in se.pows:
        defs[sname] = ('pow', [a, b])
    for (a, sname) in se.abss:
        defs[sname] = ('abs', [a])
    trees = dict((n, _sexpr(se.env[n])) for n in outputs)
    rnd = random.Random(12345)
    compared = 0
    for case in range(samples):
        vals = {}
        for n in inputs:
            v = rnd.choice([-1, 1]) * math.exp(rnd.uniform(-1.5, 1.5)) if rnd.random() < 0.85 else float(rnd.randint(-2, 3))
            if n in intvars:
                # feeds an integer-typed variable of the C text (integers are modelled as mathematical numbers:
                # exact as long as the values ARE integers)
                v = float(rnd.randint(0, 6))
            vals[n] = v
        args = ['%.17g' % vals[n] for n in glob] + ['%.17g' % vals[n] for n in pnames]
        q = subprocess.run([exe] + args, stdout=subprocess.PIPE, stderr=subprocess.PIPE)
        if q.returncode != 0:
            continue
        nat = [float(x) for x in q.stdout.decode().split()]
        val = dict((n + '!0', vals[n]) for n in inputs)
        cache = {}
        for n, nv in zip(outputs, nat):
            try:
                sv = _ev(trees[n], val, defs, cache)
            except (KeyError, _Incomparable, OverflowError):
                sv = None  # uninitialised local, or an operation outside the reals (x/0, sqrt(<0), pow domain): not comparable
            if sv is None or isinstance(sv, bool):
                continue
            if math.isnan(nv) or math.isinf(nv) or math.isnan(sv) or math.isinf(sv):
                continue
            compared += 1
            if abs(sv - nv) > 1e-9 * (abs(sv) + abs(nv)) + 1e-300:
                raise RealVCError('differential check: %s = %r natively but %r by symbolic execution, inputs %s' % (n, nv, sv, ' '.join('%s=%g' % kv for kv in sorted(vals.items()))))
    if compared == 0:
        return dict(skipped='no comparable output in %d random cases' % samples)
    return dict(cases=samples, compared=compared, what='outputs %s of the gcc-compiled extracted text vs numeric evaluation of the symbolic terms' % ','.join(outputs))


def run(job, unit_c, jd, incdirs):
    """same result shape as runner.run_job"""
    res = dict(job=job.name, enforce=job.enforce, replace=[], backend='realsmt(z3|cvc5|z3-new)', bounded=job.bounded, status='undecided', reason='',
               obligations=[], failed=[], solver_s=0.0, cmds=['gcc -E; tools/realvc.py: symbolic execution over the reals; z3/cvc5 QF_NRA'],
               assumption='machine arithmetic treated as mathematical (real numbers: no rounding, overflow or NaN); sqrt is the real square root')
    try:
        ctext = preprocess(unit_c, incdirs, job.defines)
        params, req, ens, body = find_function(ctext, job.enforce)
        se = SymExec()
        for p in [x.strip() for x in params.split(',') if x.strip() and x.strip() != 'void']:
            mm = re.match(r'^(?:const\s+)?(double|float|int|bool|_Bool|int_fast32_t|uint_fast32_t|uint_fast8_t|int_fast8_t)\s*(\*?)\s*(\w+)$', p)
            if not mm:
                raise RealVCError('parameter %r is outside the supported subset' % p)
            se.fresh_input(mm.group(3), 'Bool' if mm.group(1) in ('bool', '_Bool') else 'Real')
            if mm.group(2):
                # reference (output) parameter lowered to a pointer by the extractor: '(*x)' is the variable x
                se.outparams.add(mm.group(3))
                body = re.sub(r'\(\s*\*\s*%s\s*\)' % re.escape(mm.group(3)), mm.group(3), body)
                req = [re.sub(r'\(\s*\*\s*%s\s*\)' % re.escape(mm.group(3)), mm.group(3), r) for r in req]
                ens = [re.sub(r'\(\s*\*\s*%s\s*\)' % re.escape(mm.group(3)), mm.group(3), r) for r in ens]
        # requires are evaluated on the initial state; they may mention globals (free inputs)
        req_terms = []
        for r in req:
            pr = Parser(tokenize(r))
            e = pr.expr()
            if pr.peek()[0] != 'eof':
                raise RealVCError('trailing tokens in requires: %r' % r[:80])
            req_terms.append(se.boolean(e, 'true'))
        se.init = dict(se.env)
        pb = Parser(tokenize(body))
        stmts = pb.block()
        ndiv_before = len(se.divs)
        se.run(stmts)
        body_divs = se.divs[ndiv_before:]
        res['differential'] = differential_check(se, unit_c, job.enforce, params, jd, incdirs, job.defines, intvars=[x for x in job.a.get('intvars', '').split(',') if x])
        ens_terms = []
        for r in ens:
            pr = Parser(tokenize(r))
            e = pr.expr()
            if pr.peek()[0] != 'eof':
                raise RealVCError('trailing tokens in ensures: %r' % r[:80])
            cover = se.boolean(e[1], 'true') if e[0] == '=>' else None
            ens_terms.append((r, se.boolean(e, 'true'), cover))
    except RealVCError as ex:
        res['reason'] = 'realvc: ' + str(ex)
        return res

    def smt_for(goal):
        lines = ['(set-logic QF_NRA)']
        for s, so in se.decls.items():
            lines.append('(declare-const |%s| %s)' % (s, so))
        for a in se.axioms:
            lines.append('(assert %s)' % a)
        for r in req_terms:
            lines.append('(assert %s)' % r)
        lines.append('(assert (not %s))' % goal)
        lines.append('(check-sat)')
        lines.append('(get-model)')
        return '\n'.join(lines) + '\n'

    obligations = []
    # vacuity: the requires must be satisfiable
    vac = smt_for('false')
    v, who, dt, out = solve(vac, jd, 'requires_satisfiable', job.timeout)
    res['solver_s'] += dt
    if v != 'sat':
        res['reason'] = 'vacuity guard: the requires clauses are not shown satisfiable (%s)' % (v + ' ' + out[:200])
        return res
    for k, (pc, d) in enumerate(body_divs):
        obligations.append(('%s.division.%d' % (job.enforce, k + 1), 'denominator is not zero: %s' % d[:120], '(=> %s (not (= %s 0.0)))' % (pc, d)))
    for k, (txt, t, cover) in enumerate(ens_terms):
        if cover is not None:
            # reachability of the case the clause speaks about (an implication with an unsatisfiable antecedent proves nothing)
            v, who, dt, out = solve(smt_for('(not %s)' % cover), jd, 'cover_%d' % (k + 1), job.timeout)
            res['solver_s'] += dt
            if v != 'sat':
                res['reason'] = 'vacuity guard: the case of ensures clause %d is not shown reachable under the requires (%s)' % (k + 1, v)
                return res
        obligations.append(('%s.postcondition.%d' % (job.enforce, k + 1), 'Check ensures clause (real arithmetic): ' + re.sub(r'\s+', ' ', txt)[:200], t))
    first_model = None
    for name, desc, goal in obligations:
        v, who, dt, out = solve(smt_for(goal), jd, name, job.timeout)
        res['solver_s'] += dt
        st = {'unsat': 'SUCCESS', 'sat': 'FAILURE'}.get(v, 'UNKNOWN')
        ob = dict(name=name, description=desc, status=st, file=unit_c, line='', function=job.enforce, backend='realsmt:' + who)
        res['obligations'].append(ob)
        if st == 'FAILURE':
            res['failed'].append(ob)
            if first_model is None:
                first_model = out
        elif st == 'UNKNOWN' and not res['reason']:
            res['reason'] = 'obligation %s: no solver decided it within %d s (%s)' % (name, job.timeout, out[:200])
    res['solver_s'] = round(res['solver_s'], 2)
    if res['failed']:
        res['status'] = 'fail'
        res['reason'] = ''
        res['trace'] = first_model or ''
        res['trace_cmd'] = 'z3/cvc5 on %s/*.smt2' % jd
        inputs = {}
        for m in re.finditer(r'\(define-fun \|?(\w+)!0\|? \(\) Real\s+((?:[^()\s]+|\((?:[^()]|\([^()]*\))*\)))\)', first_model or ''):
            val = eval_real(m.group(2))
            if val is None:
                continue
            import struct
            bits = ''.join('{:08b}'.format(b) for b in struct.pack('>d', val))
            inputs['in_' + m.group(1).lstrip('_')] = [(repr(val), bits)]
        res['trace_inputs'] = inputs
        return res
    if res['reason']:
        return res
    if not res['obligations']:
        res['reason'] = 'vacuous: zero obligations generated'
        return res
    res['status'] = 'ok'
    return res
