#!/usr/bin/env python3
"""Runner: extract -> (fidelity) -> goto-cc -> goto-instrument --dfcc -> cbmc
-> verdict -> replay -> evidence.   See DESIGN.md section 2.

Exit status of a check: 0 held, 1 violation (VIOLATION line printed),
2 undecided / infrastructure problem (never a VIOLATION line).
"""
import concurrent.futures as cf
import glob
import hashlib
import json
import os
import re
import shutil
import subprocess
import sys
import tempfile
import time

HERE = os.path.dirname(os.path.abspath(__file__))
VERIF = os.path.dirname(HERE)
sys.path.insert(0, HERE)
import cxx2c  # noqa: E402

REPO = os.environ.get('VERIF_REPO', '/repo')
SCRATCH_ROOT = os.environ.get('VERIF_SCRATCH', '/var/tmp')
MEM_KB = int(os.environ.get('VERIF_MEM_KB', str(12 * 1024 * 1024)))
NCPU = int(os.environ.get('VERIF_JOBS', str(os.cpu_count() or 4)))
import threading  # noqa: E402
CPU_SEM = threading.Semaphore(NCPU)


class Infra(Exception):
    """infrastructure problem -> exit 2"""


def sh_cancellable(cmd, timeout, mem_kb, stop_evt):
    """like sh(), but polls stop_evt and kills the process group when it is set (rc -8)."""
    pre = 'ulimit -v %d; ' % mem_kb if mem_kb else ''
    t0 = time.time()
    fo = tempfile.TemporaryFile()
    fe = tempfile.TemporaryFile()
    p = subprocess.Popen(['bash', '-c', pre + 'exec ' + cmd], stdout=fo, stderr=fe, start_new_session=True)
    rc = None
    while True:
        try:
            rc = p.wait(timeout=0.25)
            break
        except subprocess.TimeoutExpired:
            pass
        if stop_evt is not None and stop_evt.is_set():
            rc = -8
        elif time.time() - t0 > timeout:
            rc = -9
        if rc is not None:
            try:
                os.killpg(p.pid, 9)
            except ProcessLookupError:
                pass
            p.wait()
            break
    fo.seek(0)
    fe.seek(0)
    out = fo.read().decode(errors='replace')
    err = fe.read().decode(errors='replace')
    fo.close()
    fe.close()
    return rc, out, err, time.time() - t0


def sh(cmd, timeout=None, cwd=None, mem_kb=None, env=None):
    pre = ''
    if mem_kb:
        pre = 'ulimit -v %d; ' % mem_kb
    t0 = time.time()
    try:
        p = subprocess.run(['bash', '-c', pre + 'exec ' + cmd], cwd=cwd, stdout=subprocess.PIPE,
                           stderr=subprocess.PIPE, timeout=timeout, env=env)
        return p.returncode, p.stdout.decode(errors='replace'), p.stderr.decode(errors='replace'), time.time() - t0
    except subprocess.TimeoutExpired as e:
        return -9, (e.stdout or b'').decode(errors='replace'), 'TIMEOUT', time.time() - t0


BACKENDS = {
    'sat': '',
    'minisat': '',
    'kissat': '--external-sat-solver kissat',
    'cvc5': '--cvc5',
    'cvc5fpa': '--cvc5 --fpa',
    'z3': '--z3',
    'z3fpa': '--z3 --fpa',
}


def quote(s):
    return "'" + s.replace("'", "'\\''") + "'"


class Job:
    def __init__(self, attrs):
        self.a = attrs
        self.name = attrs['name']
        self.harness = attrs['harness']
        self.enforce = attrs.get('enforce')
        self.replace = [x for x in attrs.get('replace', '').split(',') if x]
        self.backend = attrs.get('backend', 'sat')
        if self.backend == 'sat' and os.environ.get('VERIF_DEFAULT_BACKEND'):
            self.backend = os.environ['VERIF_DEFAULT_BACKEND']
        self.timeout = int(attrs.get('timeout', 300))
        self.tier = attrs.get('tier', 'quick')
        self.expect = [x for x in attrs.get('expect', '').split(',') if x]
        self.flags = attrs.get('flags', '').replace('+', ' ')
        self.defines = [x for x in attrs.get('defines', '').split(',') if x]
        self.bounded = attrs.get('bounded')  # text describing the bound, or None
        self.unwind = attrs.get('unwind')
        self.canary = attrs.get('canary', '1') == '1'
        self.props = attrs.get('props', '')  # property ids this job serves (comma), '' = all of unit
        self.clause = attrs.get('clause', '')
        self.loops = attrs.get('loops', '1') == '1'
        # groups=<regex>@<backend>[@each];...  obligations matching regex go to a separate cbmc run
        self.groups = []
        for g in [x for x in attrs.get('groups', '').split(';') if x]:
            parts = g.split('@')
            self.groups.append((parts[0], parts[1], parts[2] if len(parts) > 2 else 'all'))
        self.result = None


def run_job(job, unit_c, workdir, incdirs):
    """Returns dict(status=ok|fail|undecided, obligations=[...], failed=[...], ...)"""
    jd = os.path.join(workdir, 'job_' + job.name)
    os.makedirs(jd, exist_ok=True)
    if job.a.get('engine') == 'realsmt':
        # straight-line floating-point code checked with mathematical arithmetic (tools/realvc.py)
        import realvc
        with CPU_SEM:
            return realvc.run(job, unit_c, jd, incdirs)
    a_gb = os.path.join(jd, 'a.gb')
    b_gb = os.path.join(jd, 'b.gb')
    inc = ' '.join('-I' + quote(d) for d in incdirs)
    defs = ' '.join('-D' + d for d in job.defines)
    canary = '-DCM_CANARY' if job.canary else ''
    res = dict(job=job.name, enforce=job.enforce, replace=job.replace, backend=job.backend,
               bounded=job.bounded, status='undecided', reason='', obligations=[], failed=[],
               solver_s=0.0, cmds=[])
    cmd = 'goto-cc --function %s %s %s %s %s -o %s' % (job.harness, inc, defs, canary, quote(unit_c), quote(a_gb))
    res['cmds'].append(cmd)
    rc, out, err, dt = sh(cmd, timeout=300)
    if rc != 0:
        res['reason'] = 'goto-cc failed: ' + (err or out)[-2000:]
        return res
    if job.enforce or job.replace or job.loops:
        cmd = 'goto-instrument --no-malloc-may-fail --dfcc %s' % job.harness
        if job.enforce:
            cmd += ' --enforce-contract %s' % job.enforce
        for r in job.replace:
            cmd += ' --replace-call-with-contract %s' % r
        if job.loops:
            cmd += ' --apply-loop-contracts'
        cmd += ' %s %s' % (quote(a_gb), quote(b_gb))
        res['cmds'].append(cmd)
        rc, out, err, dt = sh(cmd, timeout=600, mem_kb=MEM_KB)
        if rc != 0:
            res['reason'] = 'goto-instrument failed: ' + (err or out)[-3000:]
            return res
    else:
        b_gb = a_gb
    flags = '--object-bits 12 --drop-unused-functions --no-malloc-may-fail ' + job.flags
    if job.unwind:
        flags += ' --unwind %s --unwinding-assertions' % job.unwind
    # ---- list the obligations and partition them into back-end groups
    rc, out, err, dt = sh('cbmc %s --show-properties --json-ui %s' % (flags, quote(b_gb)), timeout=300, mem_kb=MEM_KB)
    try:
        plist = None
        for item in json.loads(out):
            if isinstance(item, dict) and 'properties' in item:
                plist = item['properties']
        assert plist is not None
    except Exception:
        res['reason'] = 'cannot list properties: ' + (err or out)[-1500:]
        return res
    groups = []  # (label, backend, [names])
    rest = [p['name'] for p in plist]
    canary_name = None
    for p in plist:
        if p.get('description') == 'canary':
            canary_name = p['name']
    for gi, g in enumerate(job.groups):
        rx, be, mode = g
        names = [n for n in rest if re.search(rx, n) and n != canary_name]
        if not names:
            res['reason'] = 'vacuity guard: obligation group %r matches nothing' % rx
            return res
        rest = [n for n in rest if n not in names]
        if mode == 'each':
            for n in names:
                groups.append(('g%d:%s' % (gi, n), be, [n]))
        else:
            groups.append(('g%d' % gi, be, names))
    if rest:
        # the remaining (mostly safety/frame) obligations: chunks solved in parallel
        per = int(job.a.get('chunk', 120))
        if len(rest) <= per:
            groups.insert(0, ('default', job.backend, rest))
        else:
            nch = (len(rest) + per - 1) // per
            for c in range(nch):
                groups.insert(c, ('default%d' % c, job.backend, rest[c::nch]))

    def run_one(label, be_name, names, stop_evt=None):
        be = BACKENDS[be_name]
        if len(groups) == 1:
            sel = ''
        else:
            sel = ' '.join('--property ' + quote(n) for n in names)
        cmd = 'cbmc %s %s --json-ui %s %s' % (flags, be, sel, quote(b_gb))
        with CPU_SEM:
            rc, out, err, dt = sh_cancellable(cmd, job.timeout, MEM_KB, stop_evt)
        gres = dict(label=label, backend=be_name, n=len(names), solver_s=round(dt, 2), cmd=cmd if len(cmd) < 600 else cmd[:600] + ' ...',
                    reason='', obligations=[])
        if rc == -8:
            gres['reason'] = 'cancelled (lost the race)'
            return gres
        with open(os.path.join(jd, 'cbmc_%s_%s.json' % (re.sub(r'[^\w.]+', '_', label), be_name)), 'w') as f:
            f.write(out)
        if rc == -9:
            gres['reason'] = 'timeout after %d s (group %s, back end %s, %d obligations, e.g. %s)' % (job.timeout, label, be_name, len(names), names[0])
            return gres
        try:
            data = json.loads(out)
        except Exception:
            gres['reason'] = 'cbmc output not JSON (rc=%d): %s' % (rc, (err or out)[-1500:])
            return gres
        results = None
        msgs = []
        for item in data:
            if isinstance(item, dict):
                if 'result' in item:
                    results = item['result']
                if item.get('messageType') in ('ERROR', 'WARNING'):
                    msgs.append(item.get('messageText', ''))
        bad = [m for m in msgs if re.search(r'ignoring|Parse Error|unsupported|not supported|out of memory|failed to', m, re.I)]
        if results is None:
            gres['reason'] = 'no result in cbmc output (rc=%d): %s' % (rc, ' | '.join(msgs)[-1500:])
            return gres
        if bad:
            gres['reason'] = 'solver/tool warning makes result untrustworthy: ' + ' | '.join(bad)[:1500]
            return gres
        want = set(names)
        for r in results:
            name = r.get('property', '')
            if name not in want:
                continue
            loc = r.get('sourceLocation', {})
            gres['obligations'].append(dict(name=name, description=r.get('description', ''), status=r.get('status', ''),
                                            file=loc.get('file', ''), line=loc.get('line', ''), function=loc.get('function', ''),
                                            backend=be_name))
        errs = [o for o in gres['obligations'] if o['status'] not in ('SUCCESS', 'FAILURE')]
        if errs and not gres['reason'] and not any(o['status'] == 'FAILURE' and o['description'] != 'canary' for o in gres['obligations']):
            gres['reason'] = 'back end %s returned status %s for %s' % (be_name, errs[0]['status'], errs[0]['name'])
        got = set(o['name'] for o in gres['obligations'])
        if got != want:
            gres['reason'] = 'cbmc did not report %d selected obligations, e.g. %s' % (len(want - got), sorted(want - got)[0])
        return gres

    def run_group(g):
        label, be_spec, names = g
        bes = be_spec.split('|')
        if len(bes) == 1:
            return run_one(label, bes[0], names)
        # race the back ends: first conclusive answer wins, the others are cancelled
        evt = threading.Event()
        winner = None
        last = None
        with cf.ThreadPoolExecutor(max_workers=len(bes)) as rp:
            futs = [rp.submit(run_one, label, b, names, evt) for b in bes]
            for fu in cf.as_completed(futs):
                r = fu.result()
                last = r if (last is None or not r['reason'].startswith('cancelled')) else last
                if not r['reason'] and winner is None:
                    winner = r
                    evt.set()
        return winner or last

    with cf.ThreadPoolExecutor(max_workers=max(1, len(groups))) as pool:
        gresults = list(pool.map(run_group, groups))
    res['groups'] = [dict(label=g['label'], backend=g['backend'], obligations=g['n'], solver_s=g['solver_s']) for g in gresults]
    if os.environ.get('VERIF_VERBOSE'):
        for g in sorted(gresults, key=lambda g: -g['solver_s'])[:8]:
            sys.stderr.write('   group %-60s %-8s %7.1fs\n' % (g['label'][:60], g['backend'], g['solver_s']))
    res['solver_s'] = round(sum(g['solver_s'] for g in gresults), 2)
    res['cmds'].extend(g['cmd'] for g in gresults)
    canary_seen = False
    canary_failed = False
    unknown = []
    group_trouble = ''
    for g in gresults:
        if g['reason']:
            # a group that timed out / errored decides nothing - but a FAILURE found in another group is still a
            # refutation: only when nothing failed does the trouble make the job undecided
            group_trouble = group_trouble or g['reason']
            continue
        for ob in g['obligations']:
            if ob['description'] == 'canary':
                canary_seen = True
                canary_failed = (ob['status'] == 'FAILURE')
                continue
            res['obligations'].append(ob)
            if ob['status'] == 'FAILURE':
                res['failed'].append(ob)
            elif ob['status'] != 'SUCCESS':
                unknown.append(ob)
    if group_trouble and not res['failed']:
        res['reason'] = group_trouble
        return res
    if group_trouble:
        res['undecided_groups'] = group_trouble
    if unknown and not res['failed']:
        res['reason'] = 'obligation %s has status %s' % (unknown[0]['name'], unknown[0]['status'])
        return res
    if not res['obligations']:
        res['reason'] = 'vacuous: zero obligations generated'
        return res
    # expected kinds
    for kind in (job.expect if not res['failed'] else []):
        k, _, cnt = kind.partition(':')
        n = sum(1 for o in res['obligations'] if ('.' + k + '.') in o['name'] or o['name'].endswith('.' + k))
        if n < (int(cnt) if cnt else 1):
            res['reason'] = 'vacuity guard: expected obligation kind %s x%s, found %d' % (k, cnt or '1', n)
            return res
    if job.canary:
        if not canary_seen:
            res['reason'] = 'vacuity guard: canary assertion not present in result'
            return res
        if not canary_failed and not res['failed']:
            res['reason'] = 'vacuous: canary after the call is unreachable (precondition unsatisfiable or no terminating path)'
            return res
    if res['failed']:
        res['status'] = 'fail'
        # trace for the first failed obligation, on the back end that refuted it
        first = res['failed'][0]
        cmd2 = 'cbmc %s %s --trace --property %s %s' % (flags, BACKENDS[first['backend']], quote(first['name']), quote(b_gb))
        with CPU_SEM:
            rc2, out2, err2, dt2 = sh(cmd2, timeout=job.timeout, mem_kb=MEM_KB)
        res['trace_cmd'] = cmd2
        res['trace_inputs'] = parse_trace_inputs(out2)
        res['trace'] = out2 if len(out2) < 80000 else out2[:30000] + '\n[... trace shortened ...]\n' + out2[-50000:]
    else:
        res['status'] = 'ok'
    return res


def parse_trace_inputs(trace_text):
    """Collect 'var=value' assignments from a CBMC plain-text trace (last value wins)."""
    vals = {}
    for m in re.finditer(r'^\s{2}([A-Za-z_][\w\.\[\]\->]*)=([^\n]*?)(?: \(([01 ]+)\))?$', trace_text, flags=re.M):
        vals.setdefault(m.group(1), []).append((m.group(2).strip(), (m.group(3) or '').replace(' ', '')))
    return vals


def source_line(ob):
    try:
        with open(ob['file'], errors='replace') as f:
            lines = f.readlines()
        return '| ' + lines[int(ob['line']) - 1].strip()[:200]
    except Exception:
        return ''


def load_known_findings():
    p = os.path.join(VERIF, 'known_findings.txt')
    findings = []
    if os.path.exists(p):
        for ln in open(p):
            ln = ln.strip()
            if not ln or ln.startswith('#'):
                continue
            if ln.startswith('finding:'):
                d = dict(re.findall(r'(\w+)=("[^"]*"|\S+)', ln[len('finding:'):]))
                d = {k: v.strip('"') for k, v in d.items()}
                findings.append(d)
    return findings


def validate_evidence(ev):
    try:
        import jsonschema
        schema = json.load(open('/root/.vp/EVIDENCE.schema.json'))
        jsonschema.validate(ev, schema)
    except ImportError:
        pass
    except FileNotFoundError:
        pass


def run_check(pid, tier='quick', seed=0, keep=False, only=None):
    t0 = time.time()
    udir = os.path.join(VERIF, 'units', pid)
    meta = json.load(open(os.path.join(udir, 'unit.json')))
    work = tempfile.mkdtemp(prefix='verif_%s_' % pid, dir=SCRATCH_ROOT)
    # evidence always goes to /verif/evidence; experiments on modified trees (seeded changes) redirect it
    ev_path = os.path.join(os.environ.get('VERIF_EVIDENCE_DIR', os.path.join(VERIF, 'evidence')), pid + '.json')
    os.makedirs(os.path.dirname(ev_path), exist_ok=True)
    try:
        os.remove(ev_path)
    except FileNotFoundError:
        pass
    status = 2
    try:
        status = _run_check(pid, tier, seed, udir, meta, work, ev_path, t0, only)
    except (Infra, cxx2c.ExtractionError) as e:
        sys.stderr.write('UNDECIDED property=%s: %s\n' % (pid, e))
        print('UNDECIDED property=%s reason=%s' % (pid, str(e).replace('\n', ' ')[:300]))
        status = 2
    finally:
        if keep:
            sys.stderr.write('scratch kept at %s\n' % work)
        else:
            shutil.rmtree(work, ignore_errors=True)
    return status


def _run_check(pid, tier, seed, udir, meta, work, ev_path, t0, only):
    templates = meta.get('templates', ['unit.c.in'])
    incdirs = [os.path.join(VERIF, 'prelude'), udir] + [os.path.dirname(os.path.join(udir, t)) for t in templates]
    all_jobs = []
    reports = []
    for tn in templates:
        ex = cxx2c.Extractor(REPO, os.path.join(udir, tn))
        with open(os.path.join(udir, tn)) as f:
            text, jobs = ex.process(f.read())
        cfile = cfile_for(work, tn)
        with open(cfile, 'w') as f:
            f.write(text)
        reports.append(ex.report)
        keep = meta.get('import_jobs', {}).get(tn)
        for j in jobs:
            if keep is not None and j['name'] not in keep:
                continue
            jb = Job(j)
            jb.cfile = cfile
            all_jobs.append(jb)
    if os.environ.get('VERIF_KEEP_C'):
        for tn in templates:
            shutil.copy(cfile_for(work, tn), os.environ['VERIF_KEEP_C'])

    # fidelity: extracted C compiled natively vs the real C++ class
    fidelity = None
    fid_src = os.path.join(udir, 'fidelity.cpp')
    fid_error = None
    if os.path.exists(fid_src):
        try:
            fidelity = run_fidelity(udir, work, templates, seed, tier, meta)
        except Infra as e:
            # decided at the end: a disagreement only matters when no obligation failed
            fid_error = str(e)
            fidelity = dict(error=fid_error[:2000])

    jobs = [j for j in all_jobs if tier == 'thorough' or j.tier == 'quick']
    if only:
        jobs = [j for j in jobs if j.name in only]
    skipped = [j.name for j in all_jobs if j not in jobs]
    if not jobs:
        raise Infra('no jobs selected')
    results = []
    # heaviest first
    jobs.sort(key=lambda j: -j.timeout)
    with cf.ThreadPoolExecutor(max_workers=max(NCPU, 4)) as pool:
        futs = {pool.submit(run_job, j, j.cfile, work, incdirs): j for j in jobs}
        for fu in cf.as_completed(futs):
            j = futs[fu]
            try:
                r = fu.result()
            except Exception as e:  # noqa
                r = dict(job=j.name, status='undecided', reason='runner exception: %r' % e, obligations=[], failed=[],
                         solver_s=0, enforce=j.enforce, replace=j.replace, backend=j.backend, bounded=j.bounded, cmds=[])
            r['clause'] = j.clause
            results.append(r)
            sys.stderr.write('[%s] job %-28s %-9s %4d obligations %3d failed %7.1fs %s\n' % (
                pid, j.name, r['status'], len(r['obligations']), len(r['failed']), r['solver_s'], r['reason'][:200]))
    results.sort(key=lambda r: r['job'])

    undecided = [r for r in results if r['status'] == 'undecided']
    failed = [r for r in results if r['status'] == 'fail']

    known = [k for k in load_known_findings() if k.get('property') == pid]
    violations = []
    known_hits = []
    for r in failed:
        for ob in r['failed']:
            hit = None
            for k in known:
                if k.get('job', r['job']) == r['job'] and re.search(k.get('obligation', '.*'), ob['name'] + ' ' + ob['description']):
                    hit = k
                    break
            if hit:
                known_hits.append((hit, r, ob))
            else:
                violations.append((r, ob))

    replay_path = None
    native = None
    if violations:
        rdir = os.path.join(VERIF, 'replays', pid)
        os.makedirs(rdir, exist_ok=True)
        r0, ob0 = violations[0]
        safe = re.sub(r'[^\w.]+', '_', ob0['name'])
        replay_path = os.path.join(rdir, '%s__%s.json' % (r0['job'], safe))
        inputs = r0.get('trace_inputs') or parse_trace_inputs(r0.get('trace', ''))
        rec = dict(property_id=pid, job=r0['job'], function_under_contract=r0['enforce'],
                   failed_obligation=dict(ob0, source_text=source_line(ob0)),
                   all_failed=[dict(job=r['job'], source_text=source_line(ob), **ob) for r, ob in violations],
                   backend=r0['backend'], cbmc_cmds=r0['cmds'], trace_cmd=r0.get('trace_cmd'),
                   inputs={k: dict(value=v[0][0], bits=v[0][1]) for k, v in inputs.items() if k.startswith('in_')},
                   cbmc_trace=r0.get('trace', ''), native_replay=None)
        # native replay, when the unit has a driver
        native = run_native_replay(udir, work, templates, rec, meta)
        rec['native_replay'] = native
        with open(replay_path, 'w') as f:
            json.dump(rec, f, indent=1)
        # jobs over an over-approximate model (confirm=native): a failed obligation is a violation only when the
        # native driver reproduces it on the real code; otherwise it is an undecided abstraction artefact
        byname = dict((j.name, j) for j in jobs)
        if all(byname[r['job']].a.get('confirm') == 'native' for r, _ in violations) and not (native or {}).get('reproduced'):
            for r, _ in violations:
                r['status'] = 'undecided'
                r['reason'] = 'over-approximate model (opaque values havoced): the counterexample was not reproduced on the real code'
            undecided = [r for r in results if r['status'] == 'undecided']
            failed = [r for r in results if r['status'] == 'fail']
            violations = []
            replay_path = None

    # ---- evidence
    proof_results = [r for r in results if not r['bounded']]
    bounded_results = [r for r in results if r['bounded']]
    n_ob = sum(len(r['obligations']) for r in proof_results)
    n_dis = sum(sum(1 for o in r['obligations'] if o['status'] == 'SUCCESS') for r in proof_results)
    cbmc_txt = 'goto-cc --function <h>; goto-instrument --dfcc <h> --enforce-contract <f> [--replace-call-with-contract <g>] --apply-loop-contracts; cbmc --object-bits 12 [backend] (CBMC 6.11.0); per job commands in per_function[].'
    real_txt = 'tools/realvc.py: gcc -E on the extracted text, symbolic execution over the reals, one SMT-LIB2 QF_NRA query per ensures clause / division / cover, raced on z3 4.8.12, z3 5.1 and cvc5 1.0 (unsat = discharged); native differential check of the generator.'
    has_real = any(str(r.get('backend', '')).startswith('realsmt') for r in results)
    has_cbmc = any(not str(r.get('backend', '')).startswith('realsmt') for r in results)
    checker_cmd_text = ' | '.join(t for t, on in ((cbmc_txt, has_cbmc), (real_txt, has_real)) if on)
    per_fn = []
    for r in results:
        per_fn.append(dict(job=r['job'], function=r['enforce'], callees_replaced_by_contract=r['replace'],
                           backend=r['backend'], obligations=len(r['obligations']),
                           discharged=sum(1 for o in r['obligations'] if o['status'] == 'SUCCESS'),
                           solver_s=r['solver_s'], status=r['status'], bounded=r['bounded'], clause=r.get('clause', ''),
                           groups=r.get('groups', []),
                           reason=r['reason'][:300]))
        if r.get('differential') is not None:
            per_fn[-1]['vc_generator_differential_check'] = r['differential']
        if r.get('assumption'):
            per_fn[-1]['unchecked_assumption'] = r['assumption']
    samples = []
    for r in results:
        for o in r['obligations']:
            if re.search(r'postcondition|loop_invariant_step|assertion|decreases', o['name']) and len(samples) < 10:
                samples.append(dict(job=r['job'], obligation=o['name'], description=o['description'][:200],
                                    location='%s:%s' % (o['file'], o['line']), status=o['status']))
        if len(samples) >= 10:
            break
    fn_list = []
    for rep in reports:
        for f in rep['functions']:
            fn_list.append(dict(cname=f['cname'], source='%s:%d-%d' % (f['file'], f['first_line'], f['last_line']),
                                sha256=f['sha256'][:16], rules=f['rules'], unit_rewrites=f['rewrites'],
                                loops_total=f.get('loops_total', 0), loops_annotated=f.get('loops_annotated', [])))
    assumptions = list(meta.get('assumptions', []))
    # mechanical scan of the templates for assumptions
    scan = []
    for tn in templates:
        for i, ln in enumerate(open(os.path.join(udir, tn)), 1):
            if re.search(r'__CPROVER_assume|TRUSTED:', ln) and 'CM_ERROR' not in ln:
                scan.append('%s:%d: %s' % (tn, i, ln.strip()[:160]))
    ev = dict(
        property_id=pid, tier=tier, seed=int(seed), level='proof',
        coverage=dict(
            obligations=n_ob, discharged=n_dis,
            checker_cmd=checker_cmd_text,
            trusted_base=meta.get('trusted_base', []),
            functions_under_contract=fn_list,
            per_function=per_fn,
            bounded=[dict(job=r['job'], bound=r['bounded'], obligations=len(r['obligations']),
                          discharged=sum(1 for o in r['obligations'] if o['status'] == 'SUCCESS'),
                          solver_s=r['solver_s'], status=r['status']) for r in bounded_results],
            not_decided=meta.get('not_decided', []),
            skipped_in_this_tier=skipped,
            samples=samples,
            assume_scan=scan,
            fidelity=fidelity,
            extraction_dropped=reports[0]['dropped'] if reports else [],
            solver_s_total=round(sum(r['solver_s'] for r in results), 1),
            known_findings_hit=[k.get('what', '') for k, _, _ in known_hits],
            undecided=[dict(job=r['job'], reason=r['reason'][:300]) for r in undecided],
        ),
        assumptions=assumptions,
        wall_s=round(time.time() - t0, 1),
        violations=len(violations),
    )
    validate_evidence(ev)
    with open(ev_path, 'w') as f:
        json.dump(ev, f, indent=1)

    for k, r, ob in known_hits:
        print('KNOWN-FINDING: property=%s %s (obligation %s in job %s)' % (pid, k.get('what', ''), ob['name'], r['job']))
    if violations:
        r0, ob0 = violations[0]
        tail = ''
        if not (native and native.get('reproduced')):
            tail = ' no-failing-input-found'
        for r, ob in violations[:20]:
            sys.stderr.write('FAILED OBLIGATION job=%s %s "%s" at %s:%s  %s\n' % (r['job'], ob['name'], ob['description'][:160], ob['file'], ob['line'], source_line(ob)))
        print('VIOLATION property=%s replay=%s%s' % (pid, replay_path, tail))
        return 1
    if fid_error:
        raise Infra(fid_error)
    if undecided:
        for r in undecided:
            sys.stderr.write('UNDECIDED job=%s: %s\n' % (r['job'], r['reason'][:500]))
        print('UNDECIDED property=%s jobs=%s' % (pid, ','.join(r['job'] for r in undecided)))
        return 2
    print('OK property=%s tier=%s obligations=%d discharged=%d bounded_jobs=%d wall=%.0fs' % (
        pid, tier, n_ob, n_dis, len(bounded_results), time.time() - t0))
    return 0


def cfile_for(work, tn):
    return os.path.join(work, tn.replace('..', 'up').replace('/', '_').replace('.c.in', '.c'))


def native_build(udir, work, templates, driver, out, extra='', link=''):
    """Compile the extracted C natively (CM_NATIVE) and link with a C++ driver
    that includes the real headers."""
    objs = []
    for tn in templates:
        c = cfile_for(work, tn)
        o = c[:-2] + '.native.o'
        cmd = 'gcc -std=gnu11 -O1 -ffp-contract=off -DCM_NATIVE -I%s -I%s -c %s -o %s' % (
            quote(os.path.join(VERIF, 'prelude')), quote(udir), quote(c), quote(o))
        rc, so, se, dt = sh(cmd, timeout=300)
        if rc != 0:
            raise Infra('native compile of extracted C failed: ' + se[-2000:])
        objs.append(o)
    build_inc = os.path.join(REPO, '_build', 'src')
    if not os.path.exists(os.path.join(build_inc, 'Configuration.hpp')):
        # generated configuration headers of the pinned build (copied by setup from /repo/_build/src)
        build_inc = os.path.join(VERIF, 'prelude', 'config_fallback')
    extra = extra + ' -I/usr/include/hdf5/serial -I/usr/lib/x86_64-linux-gnu/openmpi/include -I/usr/lib/x86_64-linux-gnu/openmpi/include/openmpi'
    cmd = 'g++ -std=c++11 -O1 -ffp-contract=off -fopenmp -fno-access-control -w %s -I%s -I%s -I%s -I%s %s %s -o %s' % (
        extra, quote(os.path.join(REPO, 'src')), quote(build_inc), quote(os.path.join(VERIF, 'prelude')), quote(udir),
        quote(driver), ' '.join(quote(o) for o in objs), quote(out)) + ' ' + link.replace('{repo}', REPO)
    rc, so, se, dt = sh(cmd, timeout=600)
    if rc != 0:
        raise Infra('native driver build failed: ' + se[-3000:])
    return out


def run_fidelity(udir, work, templates, seed, tier, meta):
    exe = native_build(udir, work, meta.get('native_templates', templates[:1]), os.path.join(udir, 'fidelity.cpp'), os.path.join(work, 'fidelity'), link=meta.get('native_link', ''))
    n = meta.get('fidelity_samples', 20000) * (20 if tier == 'thorough' else 1)
    rc, so, se, dt = sh('%s fidelity %d %d' % (quote(exe), int(seed), n), timeout=900, cwd=work)
    if rc != 0:
        raise Infra('fidelity test: extracted C and real C++ disagree or driver failed (rc=%d): %s %s' % (rc, so[-1500:], se[-1500:]))
    m = re.search(r'FIDELITY OK cases=(\d+)', so)
    if not m:
        raise Infra('fidelity driver printed no summary: ' + so[-500:])
    return dict(cases=int(m.group(1)), seconds=round(dt, 1), what=meta.get('fidelity_what', ''))


def run_native_replay(udir, work, templates, rec, meta):
    drv = os.path.join(udir, 'fidelity.cpp')
    if not os.path.exists(drv):
        return dict(reproduced=False, reason='unit has no native replay driver')
    try:
        exe = os.path.join(work, 'fidelity')
        if not os.path.exists(exe):
            exe = native_build(udir, work, meta.get('native_templates', templates[:1]), drv, exe, link=meta.get('native_link', ''))
    except Infra as e:
        return dict(reproduced=False, reason='replay driver build failed: %s' % e)
    inp = os.path.join(work, 'replay_in.txt')
    with open(inp, 'w') as f:
        f.write('obligation %s\n' % rec['failed_obligation']['name'])
        f.write('job %s\n' % rec['job'])
        f.write('description %s\n' % rec['failed_obligation']['description'])
        for k, v in sorted(rec.get('inputs', {}).items()):
            if v.get('bits'):
                f.write('%s %s\n' % (k, v['bits']))
    rc, so, se, dt = sh('%s replay %s' % (quote(exe), quote(inp)), timeout=120, cwd=work)
    return dict(reproduced=(rc == 1 and 'REPRODUCED' in so), rc=rc, output=(so + se)[-4000:])


def replay_file(pid, path):
    """bin/check <id> --replay <file>: re-run the native replay of a recorded counterexample."""
    udir = os.path.join(VERIF, 'units', pid)
    meta = json.load(open(os.path.join(udir, 'unit.json')))
    rec = json.load(open(path))
    work = tempfile.mkdtemp(prefix='verif_replay_%s_' % pid, dir=SCRATCH_ROOT)
    try:
        templates = meta.get('templates', ['unit.c.in'])
        for tn in templates:
            ex = cxx2c.Extractor(REPO)
            with open(os.path.join(udir, tn)) as f:
                text, jobs = ex.process(f.read())
            with open(cfile_for(work, tn), 'w') as f:
                f.write(text)
        nat = run_native_replay(udir, work, templates, rec, meta)
        print(json.dumps(nat, indent=1))
        print('failed obligation: %s "%s"' % (rec['failed_obligation']['name'], rec['failed_obligation']['description']))
        if nat.get('reproduced'):
            print('VIOLATION property=%s replay=%s' % (pid, path))
            return 1
        return 0
    except (Infra, cxx2c.ExtractionError) as e:
        sys.stderr.write('replay: %s\n' % e)
        return 2
    finally:
        shutil.rmtree(work, ignore_errors=True)
